"""Rule instances shared by several properties: the frame dispatch tables and the "pipeline presence"
rules (mechanisms whose mere deletion silently disables delivery, acknowledgement or timers)."""
import re

from mirlib import Loc, dnf_holds, show
from rules import call_locs, call_sites, event_pushes

CLIENT_DISPATCH = {
    "HandshakeSynAckFrame": "Client::handle_handshake_syn_ack", "HandshakeErrorFrame": "Client::handle_handshake_error",
    "DisconnectFrame": "Client::handle_disconnect", "DisconnectAckFrame": "Client::handle_disconnect_ack",
    "DataFrame": "Client::handle_data", "SyncFrame": "Client::handle_sync", "AckFrame": "Client::handle_ack",
}
SERVER_DISPATCH = {
    "HandshakeSynFrame": "Server::handle_handshake_syn", "HandshakeAckFrame": "Server::handle_handshake_ack",
    "DisconnectFrame": "Server::handle_disconnect", "DisconnectAckFrame": "Server::handle_disconnect_ack",
    "DataFrame": "Server::handle_data", "SyncFrame": "Server::handle_sync", "AckFrame": "Server::handle_ack",
}


def dispatch_table(cx, iid, only=None):
    """T8: handle_frame sends every frame variant to its handler (and only to it), passing the
    frame's own payload and the step's clock"""
    R = cx.R
    with cx.instance(iid, "T8 TABLE (dispatch)", "handle_frame forwards each frame variant to exactly its handler at both endpoints", floor=1) as inst:
        for fn, table, frame_arg in (("client::Client::handle_frame", CLIENT_DISPATCH, "arg2"), ("server::Server::handle_frame", SERVER_DISPATCH, "arg3")):
            b = R.body(fn)
            fa = cx.fa(b)
            got = {}
            for loc, t in b.calls():
                sn = R.short(t.get("fn") or "")
                if not re.match(r"(Client|Server)::handle_", sn):
                    continue
                alts = fa.at(loc) or []
                vs = [v for v in set(table) | {"HandshakeSynFrame", "HandshakeSynAckFrame", "HandshakeAckFrame", "HandshakeErrorFrame"} if alts and all(any(l == "is(%s,%s)" % (frame_arg, v) for l in a) for a in alts)]
                for v in vs:
                    got.setdefault(v, []).append(sn)
                    if only is None or v in only:
                        inst.site(b, loc, "%s -> %s" % (v, sn))
                    e = show(b.call_expr(t))
                    if re.search(r"@(\w+Frame)\.0", e) and not re.search(r"%s@%s\.0" % (frame_arg, v), e):
                        inst.violation(b.path, "dispatch payload " + v, "the %s handler is given another variant's payload: %s" % (v, e[:100]), at=b.span_at(loc))
            for v, h in table.items():
                if only is not None and v not in only:
                    continue
                if got.get(v) != [h]:
                    inst.violation(b.path, "dispatch " + v, "%s forwards %s to %s, expected exactly %s" % (fn.split("::")[-2] + "::handle_frame", v, got.get(v), h))
            for v in got:
                if v not in table:
                    inst.violation(b.path, "dispatch " + v, "%s acts on %s frames, which this endpoint must ignore" % (fn.split("::")[-2], v))


def pipeline_presence(cx, iid):
    """T2/T7: the calls that move a packet from the API to the wire and back are present on all paths
    of their arms.  Deleting any of them breaks delivery without touching a guard."""
    R = cx.R
    with cx.instance(iid, "T2 PAIR (presence)", "send -> enqueue, step -> half_connection.step + receive, flush -> emit_frames, receive -> PacketReceiver::receive are present on every path of the Active arms", floor=14) as inst:
        def arm_call(fn, callee, arg_rx, arm_rx=r"is\(%s,Active\)", must=True):
            b = R.body(fn)
            cs = [(l, lab) for l, lab in call_sites(b, callee) if re.search(arg_rx, show(b.call_expr(b.node_at(l))))]
            for l, lab in cs:
                inst.site(b, l, "%s: %s" % (fn.split("::")[-1], show(b.call_expr(b.node_at(l)))[:90]))
            if not cs:
                inst.violation(b.path, callee + " missing", "%s no longer calls %s with the expected operands (%s)" % (fn.split("::")[-1], callee, arg_rx))
                return b, []
            # on the arm's edge the call is made on all paths
            fa = cx.fa(b)
            st = r"[\w:.@\[\](),]*state"
            found_edge = False
            for bb in b.reachable:
                t = b.term(bb)
                if t["k"] == "switch":
                    for y, lb in b.succ[bb]:
                        lits = fa.edge_lits.get((bb, y, lb[1]), [])
                        if any(re.fullmatch(arm_rx % st, x) for x in lits):
                            found_edge = True
                            if must and b.reach_exit_avoiding(Loc(y, -1), [l for l, _ in cs], _loop_exits(b, y)) is not None:
                                # the Active arm may legitimately branch (disconnect vs normal): handled by callers with must=False
                                inst.violation(b.path, callee + " skipped", "the Active arm of %s can complete without calling %s" % (fn.split("::")[-1], callee))
            if not found_edge:
                inst.violation(b.path, "Active arm", "no Active arm found in %s (anchor)" % fn)
            return b, cs

        arm_call("client::Client::send", "HalfConnection::send", r"HalfConnection::send\(arg1\.state@Active\.0\.half_connection,arg2,cast<u8>\(arg3\),arg4\)")
        arm_call("server::remote_client::RemoteClient::send", "HalfConnection::send", r"HalfConnection::send\(arg1\.state@Active\.0\.half_connection,arg2,cast<u8>\(arg3\),arg4\)")
        arm_call("client::Client::send", "Vec::push", r"Vec::push\(arg1\.state@Pending\.0\.initial_sends,SendEntry\{arg2,cast<u8>\(arg3\),arg4\}\)", arm_rx=r"is\(%s,Pending\)")
        b = R.body("client::Client::handle_handshake_syn_ack")
        cs = [l for l, t in b.calls("HalfConnection::send") if re.search(r"HalfConnection::send\(var\d+,IntoIter::next\(var\d+\)@Some\.0\.data,IntoIter::next\(var\d+\)@Some\.0\.channel_id,IntoIter::next\(var\d+\)@Some\.0\.mode\)", show(b.call_expr(t)))]
        inst.site(b, None, "initial sends replayed: %d call(s)" % len(cs))
        if len(cs) != 1 or not any(cs[0].bb in L["body"] for L in b.loops()):
            inst.violation(b.path, "initial sends", "packets queued while connecting are not all handed to the new connection")
        hs = R.body("half_connection::HalfConnection::send")
        e = [show(hs.call_expr(t)) for l, t in hs.calls("PacketSender::enqueue_packet")]
        inst.site(hs, None, "HalfConnection::send -> %s" % e)
        if e != ["PacketSender::enqueue_packet(arg1.packet_sender,arg2,arg3,arg4,arg1.flush_id)"]:
            inst.violation(hs.path, "enqueue_packet", "HalfConnection::send does not enqueue exactly its arguments: %s" % e)
        ep = R.body("PacketSender::enqueue_packet")
        e = [show(ep.call_expr(t)) for l, t in ep.calls("VecDeque::push_back")]
        if e != ["VecDeque::push_back(arg1.packet_send_queue,PacketSendEntry::new(arg2,arg3,arg4,arg5))"]:
            inst.violation(ep.path, "push_back", "enqueue_packet does not queue exactly its arguments: %s" % e)
        # step: normal branch steps the connection and delivers; flush transmits
        for fn, flushfn in (("client::Client::step_if_active", "client::Client::flush_if_active"), ("server::Server::step_active_clients", "server::Server::flush_active_clients")):
            b = R.body(fn)
            fa = cx.fa(b)
            steps = call_locs(b, "HalfConnection::step")
            recvs = call_locs(b, "HalfConnection::receive")
            inst.site(b, None, "%s: %d half_connection.step(), %d receive()" % (fn.split("::")[-1], len(steps), len(recvs)))
            if len(steps) != 1 or len(recvs) != 2:
                inst.violation(b.path, "step/receive calls", "%s should call half_connection.step() once and receive() on both branches (found %d/%d)" % (fn.split("::")[-1], len(steps), len(recvs)))
            # every path through the Active arm delivers
            for bb in b.reachable:
                t = b.term(bb)
                if t["k"] == "switch":
                    for y, lb in b.succ[bb]:
                        lits = fa.edge_lits.get((bb, y, lb[1]), [])
                        if any(re.fullmatch(r"is\([\w:.@\[\](),]*state,Active\)", x) for x in lits):
                            if b.reach_exit_avoiding(Loc(y, -1), recvs, _loop_exits(b, y)) is not None:
                                inst.violation(b.path, "receive skipped", "an active connection can be stepped without delivering received packets")
                        # the normal branch is the one on which the disconnect decision is negative (either polarity of the flag)
                        if any(re.fullmatch(r"!?var\d+", x) for x in lits) and steps and not _reaches_block(b, y, _closing_blocks(b), stop={l.bb for l in (_loop_exits(b, y) or [])}):
                            if _reaches_block(b, y, {s.bb for s in recvs}) and b.reach_exit_avoiding(Loc(y, -1), steps, _loop_exits(b, y)) is not None:
                                inst.violation(b.path, "step skipped", "the normal branch of %s does not step the half connection" % fn.split("::")[-1])
            arm_call(flushfn, "HalfConnection::flush", r"HalfConnection::flush\(")
        # the public entry points reach those helpers on every path
        for fn, callees in (("client::Client::flush", ["Client::flush_if_active"]), ("server::Server::flush", ["Server::flush_active_clients"]),
                            ("client::Client::step", ["Client::handle_frames", "Client::handle_events", "Client::step_if_active"]),
                            ("server::Server::step", ["Server::handle_frames", "Server::handle_events", "Server::step_active_clients"])):
            pb = R.body(fn)
            for callee in callees:
                ls = call_locs(pb, callee)
                inst.site(pb, None, "%s -> %s: %d" % (fn.split("::", 1)[1], callee, len(ls)))
                if len(ls) != 1 or pb.reach_exit_avoiding(Loc(0, -1), ls) is not None:
                    inst.violation(pb.path, callee, "%s can return without calling %s" % (fn.split("::", 1)[1], callee))
        hf = R.body("half_connection::HalfConnection::flush")
        ef = call_locs(hf, "HalfConnection::emit_frames")
        inst.site(hf, None, "flush -> emit_frames: %d" % len(ef))
        if len(ef) != 1 or hf.reach_exit_avoiding(Loc(0, -1), ef) is not None:
            inst.violation(hf.path, "emit_frames", "HalfConnection::flush can return without emitting frames")
        hr = R.body("half_connection::HalfConnection::receive")
        e = [show(hr.call_expr(t)) for l, t in hr.calls("PacketReceiver::receive")]
        inst.site(hr, None, "receive -> %s" % e)
        if e != ["PacketReceiver::receive(arg1.packet_receiver,arg2)"]:
            inst.violation(hr.path, "PacketReceiver::receive", "HalfConnection::receive does not deliver from the packet receiver: %s" % e)
        st = R.body("half_connection::HalfConnection::step")
        for callee in ("HalfConnection::fill_flush_alloc", "SendRateComp::step", "FrameQueue::forget_frames", "FrameQueue::get_feedback"):
            ls = call_locs(st, callee)
            inst.site(st, None, "step -> %s: %d" % (callee, len(ls)))
            if len(ls) != 1 or st.reach_exit_avoiding(Loc(0, -1), ls) is not None:
                inst.violation(st.path, callee, "HalfConnection::step can return without calling %s" % callee)


def _closing_blocks(b):
    """blocks that move the connection to Closing (the disconnect branch of step_if_active / step_active_clients)"""
    out = set()
    for l, st in b.assigns():
        if st["pl"]["p"] and show(b.place_expr(st["pl"])).endswith("state") and show(b.rvalue_expr(st["rv"])).startswith("State::Closing"):
            out.add(l.bb)
    return out


def _loop_exits(b, bb):
    Ls = [L for L in b.loops() if bb in L["body"]]
    if not Ls:
        return None
    L = min(Ls, key=lambda x: len(x["body"]))
    return [Loc(L["header"], 0)]


def _reaches_block(b, start, targets, stop=()):
    seen = set(stop)
    st = [start]
    while st:
        x = st.pop()
        if x in targets:
            return True
        if x in seen:
            continue
        seen.add(x)
        for y, _ in b.succ[x]:
            st.append(y)
    return False


def ack_processing_presence(cx, iid):
    """acks and feedback are processed: every group of an ack frame is handed to acknowledge_group,
    a sent data frame is reported to the rate controller, and SendRateComp::step dispatches to its
    two handlers"""
    R = cx.R
    with cx.instance(iid, "T2 PAIR (presence)", "handle_ack_frame acknowledges every group; data sends notify the rate controller; SendRateComp::step runs its handlers", floor=4) as inst:
        b = R.body("half_connection::HalfConnection::handle_ack_frame")
        cs = [l for l, t in b.calls("FrameQueue::acknowledge_group")]
        inst.site(b, None, "acknowledge_group calls: %d" % len(cs))
        Ls = b.loops()
        if len(cs) != 1 or not Ls or cs[0].bb not in Ls[0]["body"]:
            inst.violation(b.path, "acknowledge_group", "handle_ack_frame does not acknowledge every group of the frame")
        else:
            from loops import cycle_avoiding
            if cycle_avoiding(b, Ls[0], {cs[0].bb}) is not None:
                inst.violation(b.path, "acknowledge_group skipped", "an ack group can be skipped")
            e = show(b.call_expr(b.node_at(cs[0])))
            m = re.fullmatch(r"FrameQueue::acknowledge_group\(arg1\.frame_queue,(?:AckGroup::clone\()?(?:IntoIter|Iter)::next\(var(\d+)\)@Some\.0\)?,SendRateComp::rtt_ms\(arg1\.send_rate_comp\)\)", e)
            if not m:
                inst.violation(b.path, "acknowledge_group operands", "acknowledge_group is called as `%s`" % e[:140])
            else:
                # the iterator walks the frame's own ack groups
                srcs = [show(b.rvalue_expr(n["rv"])) if k == "assign" else show(b.call_expr(n)) for l, k, n in b.defs.get(int(m.group(1)), [])]
                if not srcs or not all(re.fullmatch(r"(?:(?:I::into_iter|Vec::into_iter|\[T\]::iter|Vec::iter|Box::into_iter)\()+arg2\.frame_acks\)+", x) for x in srcs):
                    inst.violation(b.path, "acknowledge_group source", "the acknowledged groups are taken from %s, expected the frame's frame_acks" % srcs)
        cb = R.body("half_connection::HalfConnection::emit_data_frames::{closure#0}")
        nf = call_locs(cb, "SendRateComp::notify_frame_sent")
        inst.site(cb, None, "data callback -> notify_frame_sent: %d" % len(nf))
        if len(nf) != 1 or cb.reach_exit_avoiding(Loc(0, -1), nf) is not None:
            inst.violation(cb.path, "notify_frame_sent", "sending a data frame does not start the rate controller (it would stay in AwaitSend and never react to feedback)")
        st = R.body("SendRateComp::step")
        fa = cx.fa(st)
        hf = call_sites(st, "SendRateComp::handle_feedback")
        ne = call_sites(st, "SendRateComp::nofeedback_expired")
        inst.site(st, None, "SendRateComp::step -> handle_feedback %d, nofeedback_expired %d" % (len(hf), len(ne)))
        if len(hf) != 1 or len(ne) != 1:
            inst.violation(st.path, "handlers", "SendRateComp::step must call handle_feedback and nofeedback_expired once each")
        else:
            cx.guard(inst, st, hf, [[r"is\(arg3,Some\)"]], construct="handle_feedback without feedback")
            cx.guard(inst, st, ne, [[r"is\(arg3,None\)", r"le\(arg1\.nofeedback_exp_ms@Some\.0,arg2\)"]], construct="nofeedback_expired before expiry")
            for bb in st.reachable:
                t = st.term(bb)
                if t["k"] == "switch":
                    for y, lb in st.succ[bb]:
                        lits = fa.edge_lits.get((bb, y, lb[1]), [])
                        if "is(arg3,Some)" in lits and st.reach_exit_avoiding_flags(y, [l for l, _ in hf], fa) is not None:
                            inst.violation(st.path, "feedback dropped", "a feedback report can be dropped without being handled")
                        if any(re.fullmatch(r"le\(arg1\.nofeedback_exp_ms@Some\.0,arg2\)", x) for x in lits) and st.reach_exit_avoiding_flags(y, [l for l, _ in ne], fa) is not None:
                            inst.violation(st.path, "expiry dropped", "an expired no-feedback timer can be ignored")


def leave_implies_terminal(cx, iid):
    """the converse of C08.b: a connection that the application saw connected leaves to Closed/Fin
    only together with a terminal event (so the peer-driven and timer-driven ends are all reported)"""
    R = cx.R
    EXEMPT = {"client::Client::disconnect": "application-initiated abort while still connecting: documented to end silently",
              "client::Client::disconnect_now": "same", "server::Server::drop": "documented: forgets the client without an event"}
    with cx.instance(iid, "T2 PAIR", "every transition of a Pending/Active/Closing connection to Closed or Fin is accompanied by a terminal event", floor=12) as inst:
        st = r"[\w:.@\[\](),]*state"
        for b in R.all_bodies():
            if not (b.path.startswith("client::Client::") or b.path.startswith("server::Server::")):
                continue
            fa = cx.fa(b, kill_fields=False)
            terms = [l for l, lab in event_pushes(b, r"Event::(Disconnect|Error)")]
            for loc, s2 in b.assigns():
                if not s2["pl"]["p"]:
                    continue
                ps = show(b.place_expr(s2["pl"]))
                v = show(b.rvalue_expr(s2["rv"]))
                if not ps.endswith("state") or not re.match(r"State::(Closed|Fin)\b", v):
                    continue
                alts = fa.at(loc)
                from_closed, _ = dnf_holds(alts, [[r"is\(%s,Closed\)" % st]])
                if from_closed:
                    inst.site(b, loc, "Closed -> Fin (already terminal)")
                    continue
                if b.path in EXEMPT:
                    inst.site(b, loc, "exempt: " + EXEMPT[b.path][:60])
                    continue
                inst.site(b, loc, "leave to %s" % v[:14])
                # a terminal push precedes or follows within the same arm
                # handshake timeout with errors disabled is the one documented silent end: paths through
                # the `!enable_handshake_errors` edge are accepted while the connection is still Pending
                extra = []
                pend, _ = dnf_holds(alts, [[r"is\(%s,Pending\)" % st]])
                if pend:
                    for bb in b.reachable:
                        t = b.term(bb)
                        if t["k"] == "switch":
                            for y, lb in b.succ[bb]:
                                if fa.edge_lits.get((bb, y, lb[1])) == ["!arg1.config.enable_handshake_errors"]:
                                    extra.append(Loc(y, -1))
                if b.reach_from_entry_avoiding(loc, terms + extra) is not None and b.reach_exit_avoiding(loc, terms, _loop_exits(b, loc.bb)) is not None:
                    inst.violation(b.path, "silent leave to " + v[:14], "a connection leaves to %s without Disconnect/Error being reported on some path" % v[:14], at=b.span_at(loc))


def _id_walks(b):
    """loops of the form `let mut id = <start>; while id != <end> { ...; id = packet_id::add(id, 1); ... }`
    -> [(L, var, start, end)]"""
    out = []
    for L in b.loops():
        h = L["header"]
        t = b.term(h)
        if t["k"] != "switch":
            continue
        m = re.fullmatch(r"ne\((.+),(var\d+)\)|ne\((var\d+),(.+)\)", show(b.operand_expr(t["op"])))
        if not m:
            continue
        var, end = (m.group(2), m.group(1)) if m.group(2) else (m.group(3), m.group(4))
        n = int(var[3:])
        steps, inits = [], []
        for loc, kind, node in b.defs.get(n, []):
            v = show(b.rvalue_expr(node["rv"])) if kind == "assign" else show(b.call_expr(node))
            (steps if loc.bb in L["body"] else inits).append((loc, v))
        if len(steps) != 1 or steps[0][1] not in ("packet_id::add(%s,1)" % var, "packet_id::add(1,%s)" % var):
            continue
        # the step is taken on every iteration
        from loops import cycle_avoiding
        if cycle_avoiding(b, L, {steps[0][0].bb}) is not None:
            continue
        out.append((L, var, sorted({v for _, v in inits}), end))
    return out


def window_walks(cx, iid):
    """T5/T2: when the receive window advances from base_id to new_base_id, *every* slot it passes is
    released, unconditionally: the delivered-flag bit is cleared, the reassembly slot is cleared
    (whatever state it is in: a half-received packet must not survive into the slot's next use) and
    the channel markers are reconsidered.  A release that is conditional on the slot having produced
    a packet leaves stale fragments behind for the id that maps to the same slot window_size later."""
    R = cx.R
    from loops import cycle_avoiding
    with cx.instance(iid, "T5 LOOP + T2", "advance_window releases every slot in [base_id, new_base_id) on every iteration: entry flag, reassembly slot, channel markers", floor=3) as inst:
        b = R.body("PacketReceiver::advance_window")
        walks = _id_walks(b)
        need = {"entry flag cleared": None, "AssemblyWindow::clear": None, "try_unset_channel_base_id": None}
        for L, var, inits, end in walks:
            if inits != ["arg1.base_id"] or end != "arg2":
                continue
            IDX = r"cast<usize>\(bitand\((arg1\.receive_window_mask,%s|%s,arg1\.receive_window_mask)\)\)" % (var, var)
            acts = []
            for l, t in b.calls():
                if l.bb not in L["body"]:
                    continue
                s = show(b.call_expr(t))
                if re.fullmatch(r"AssemblyWindow::clear\(arg1\.assembly_window,%s\)" % IDX, s):
                    acts.append(("AssemblyWindow::clear", l))
                if re.fullmatch(r"PacketReceiver::try_unset_channel_base_id\(arg1,%s\)" % var, s):
                    # the walk visits id+1 .. new_base: the call comes after the step
                    acts.append(("try_unset_channel_base_id", l))
            for l, node, ps in b.field_writes(r"arg1\.entry_flags\[div\(%s,64\)\]" % IDX):
                if l.bb in L["body"] and node["k"] == "assign":
                    v = show(b.rvalue_expr(node["rv"]))
                    if re.fullmatch(r"bitand\((arg1\.entry_flags\[div\(%s,64\)\],not\(shl\(1,rem\(%s,64\)\)\)|not\(shl\(1,rem\(%s,64\)\)\),arg1\.entry_flags\[div\(%s,64\)\])\)" % (IDX, IDX, IDX, IDX), v):
                        acts.append(("entry flag cleared", l))
            for name, l in acts:
                every = cycle_avoiding(b, L, {l.bb}) is None
                inst.site(b, l, "%s for each id in [base_id, new_base_id)%s" % (name, "" if every else " — NOT on every iteration"))
                if every or name == "entry flag cleared":
                    # (clearing the delivered flag only where it is set is the same thing: presence in the walk is what is required)
                    need[name] = l
                else:
                    inst.violation(b.path, name + " conditional", "`%s` is skipped on some iterations of the advance loop: a slot the window passes is not released" % name, at=b.span_at(l))
        for name, l in need.items():
            if l is None:
                inst.violation(b.path, name, "advance_window has no loop over [base_id, new_base_id) that performs `%s` on every iteration" % name)
        # base_id is moved only after the walks
        ws = [l for l, node, ps in b.field_writes(r"arg1\.base_id")]
        if len(ws) != 1:
            inst.violation(b.path, "base_id write", "advance_window writes base_id at %d sites" % len(ws))
        # end_id never falls behind the base: a jump past end_id (resynchronisation) pulls end_id up to the new
        # base, otherwise receive() would walk `while id != end_id` almost once around the id space over
        # slots that belong to other ids
        fa = cx.fa(b)
        ends = [(l, show(b.rvalue_expr(node["rv"]))) for l, node, ps in b.field_writes(r"arg1\.end_id") if node["k"] == "assign"]
        keep = []
        for (bb, y, lab), lits in fa.edge_lits.items():
            if any(re.fullmatch(r"l[et]\(packet_id::sub\(arg2,arg1\.base_id\),packet_id::sub\(arg1\.end_id,arg1\.base_id\)\)", x) for x in lits):
                keep.append(Loc(y, -1))
        for l, v in ends:
            inst.site(b, l, "end_id = " + v)
            if v != "arg2":
                inst.violation(b.path, "end_id value", "advance_window sets end_id = `%s`, expected the new base" % v, at=b.span_at(l))
        if ws:
            w = b.reach_from_entry_avoiding(ws[0], [l for l, _ in ends] + keep)
            if w is not None:
                inst.violation(b.path, "end_id left behind", "base_id can move past end_id without end_id being pulled up to the new base", at=b.span_at(ws[0]), detail={"offending_path": b.path_spans(w)[:12]})


def sync_refusal_exact(cx, iid):
    """T1x: the sync/keepalive frame is refused for lack of credit only when the credit is negative.
    fill_flush_alloc caps the credit at rate*rtt, which is 0 until the first RTT sample: an endpoint that
    also refuses at credit == 0 never sends a keepalive (or a resynchronising sync) before its first
    acknowledged data frame, and an idle connection then times out on a loss-free link."""
    R = cx.R
    with cx.instance(iid, "T1x EXACT-GUARD", "emit_sync_frame gives up for lack of credit only under flush_alloc < 0 (credit 0 must still send)", floor=1) as inst:
        b = R.body("HalfConnection::emit_sync_frame")
        fa = cx.fa(b)
        errs = [loc for loc, kind, node in b.defs.get(0, []) if kind == "assign" and show(b.rvalue_expr(node["rv"])).startswith("Err{")]
        for loc in errs:
            inst.site(b, loc, "return Err(()) (out of credit)")
            g, bad = dnf_holds(fa.at(loc), [[r"lt\(arg1\.flush_alloc,0\)"]])
            if not g:
                inst.violation(b.path, "credit refusal", "emit_sync_frame refuses to send on a path where the credit is not negative", at=b.span_at(loc), detail={"facts_on_offending_path": sorted(bad)[:8] if bad else []})
        if not errs:
            inst.note("emit_sync_frame has no refusing exit")
        # the same holds for the three emitter entry points (an ack-only reply to a keepalive is a `push_dud`): an
        # Err return is either for negative credit (of the connection, or after the frame in progress is paid for),
        # or for a reason that is not credit at all (frame window closed)
        OKR = [[r"lt\(arg1\.flush_alloc,0\)"], [r"lt\(sub\(arg1\.flush_alloc,cast<isize>\(.*\)\),0\)"], [r"!FrameQueue::can_push\(arg1\.frame_queue\)"]]
        for fn in ("AckFrameEmitter::push_dud", "AckFrameEmitter::push", "DataFrameEmitter::push"):
            eb = R.body(fn)
            efa = cx.fa(eb)
            for loc, kind, node in eb.defs.get(0, []):
                if kind == "assign" and show(eb.rvalue_expr(node["rv"])).startswith("Err{"):
                    inst.site(eb, loc, "%s: return Err" % fn)
                    g, bad = dnf_holds(efa.at(loc), OKR)
                    if not g:
                        inst.violation(eb.path, "credit refusal", "%s refuses on a path where the credit is not negative (credit 0 must still send: before the first RTT sample the credit is capped at 0)" % fn, at=eb.span_at(loc), detail={"facts_on_offending_path": sorted(bad)[:8] if bad else []})


def half_connection_clock(cx, iid):
    """T2/T7: HalfConnection::step is where the connection's clock, RTT and RTO reach the state that
    flush() later acts on.  If `now_ms` is not stored the resend deadlines (now >= resend_time) never
    come due and nothing lost is ever retransmitted; if time_last_flushed is not stored the send credit
    is never refilled and the connection stops sending after its first burst."""
    R = cx.R
    HC = "half_connection::HalfConnection::"
    with cx.instance(iid, "T2 PAIR (stores) + T7", "step() stores now_ms / rtt_ms / rto_ms from the clock and the rate computer, refills the credit (which records the refill time), bumps flush_id and steps the rate computer with the frame queue's feedback; flush() hands exactly these to emit_frames", floor=9) as inst:
        b = R.body(HC + "step")
        NOW = r"cast<u64>\(Duration::as_millis\(Instant::sub\(Instant::now\(\),arg1\.time_base\)\)\)"
        want = {
            "now_ms": NOW,
            "rtt_ms": r"Option::unwrap_or\(SendRateComp::rtt_ms\(arg1\.send_rate_comp\),half_connection::INITIAL_RTT_ESTIMATE_MS\)",
            "rto_ms": r"Option::unwrap_or\(SendRateComp::rto_ms\(arg1\.send_rate_comp\),half_connection::INITIAL_RTO_ESTIMATE_MS\)",
            "flush_id": r"u32::wrapping_add\((arg1\.flush_id,1|1,arg1\.flush_id)\)",
        }
        for fld, rx in want.items():
            from rules import canon_value
            ws = [(l, show(canon_value(cx, b, b.rvalue_expr(n["rv"]) if n["k"] == "assign" else b.call_expr(n)))) for l, n, ps in b.field_writes(r"arg1\." + fld)]
            for l, v in ws:
                inst.site(b, l, "%s = %s" % (fld, v[:90]))
                if not re.fullmatch(rx, v):
                    inst.violation(b.path, fld + " value", "step() stores %s = `%s`" % (fld, v[:160]), at=b.span_at(l))
            cx.followed_by(inst, b, [(Loc(0, -1), "entry of step()")], [l for l, _ in ws], fld + " not stored", "self.%s = ..." % fld)
        for callee, rx in (("HalfConnection::fill_flush_alloc", r"HalfConnection::fill_flush_alloc\(arg1,Instant::now\(\)\)"),
                           ("SendRateComp::step", r"SendRateComp::step\(arg1\.send_rate_comp,%s,FrameQueue::get_feedback\(arg1\.frame_queue,%s\),closure:.*\)" % (NOW, NOW)),
                           ("FrameQueue::forget_frames", r"FrameQueue::forget_frames\(arg1\.frame_queue,.*\)")):
            cs = [(l, show(b.call_expr(t))) for l, t in b.calls(callee)]
            for l, v in cs:
                inst.site(b, l, callee)
                if not re.fullmatch(rx, v):
                    inst.violation(b.path, callee + " arguments", "step() calls `%s`" % v[:200], at=b.span_at(l))
            cx.followed_by(inst, b, [(Loc(0, -1), "entry of step()")], [l for l, _ in cs], callee + " skipped", callee)
        # the loss-rate reset requested by the rate computer reaches the frame queue
        cl = [R.body(c) if isinstance(c, str) else c for c in R.closures_of(b.path)]
        ok = any(call_sites(c, "FrameQueue::reset_loss_rate") for c in cl)
        inst.site(b, None, "reset_loss_rate closure forwards to FrameQueue::reset_loss_rate: %s" % ok)
        if not ok:
            inst.violation(b.path, "reset_loss_rate closure", "the closure given to SendRateComp::step no longer forwards the new loss rate to the frame queue")
        f = R.body(HC + "flush")
        cs = [show(f.call_expr(t)) for l, t in f.calls("HalfConnection::emit_frames")]
        inst.site(f, None, "flush -> %s" % cs)
        if cs != ["HalfConnection::emit_frames(arg1,arg1.now_ms,arg1.rtt_ms,arg1.rto_ms,arg1.flush_id,arg2)"]:
            inst.violation(f.path, "emit_frames arguments", "flush() calls %s" % cs)
        ff = R.body(HC + "fill_flush_alloc")
        ws = [(l, show(ff.rvalue_expr(n["rv"]))) for l, n, ps in ff.field_writes(r"arg1\.time_last_flushed") if n["k"] == "assign"]
        for l, v in ws:
            inst.site(ff, l, "time_last_flushed = " + v)
            if v != "Some{arg2}":
                inst.violation(ff.path, "time_last_flushed value", "fill_flush_alloc records `%s`" % v, at=ff.span_at(l))
        cx.followed_by(inst, ff, [(Loc(0, -1), "entry of fill_flush_alloc")], [l for l, _ in ws], "refill time not recorded", "time_last_flushed = Some(now)")


def saturated_u32_of(v):
    """X when the printed expression v is `X saturated to u32` in one of the spellings a maintainer would use:
    min(X, u32::MAX as usize) as u32 (either operand order) or u32::try_from(X).unwrap_or(u32::MAX)"""
    MAXU = r"core::num::<impl u32>::MAX"
    for rx in (r"cast<u32>\(Ord::min\((.*),cast<usize>\(%s\)\)\)" % MAXU,
               r"cast<u32>\(Ord::min\(cast<usize>\(%s\),(.*)\)\)" % MAXU,
               r"Result::unwrap_or\((?:u32::try_from|TryFrom::try_from|TryInto::try_into)\((.*)\),%s\)" % MAXU):
        m = re.fullmatch(rx, v)
        if m:
            return m.group(1)
    return None


def inline_local_closure_call(R, v):
    """`f(x)` for a capture-free local closure `let f = |a| EXPR;` printed as `…::{closure#k}(closure:PATH{},tuple{X})`:
    the closure's returned expression with its parameter replaced by X (printed form); v itself otherwise"""
    m = re.fullmatch(r"[\w:<>]*\{closure#\d+\}\(closure:([^{}]*\{closure#\d+\})\{\},tuple\{(.*)\}\)", v)
    if not m:
        return v
    try:
        cb = R.body(m.group(1))
        if cb.argc != 2:
            return v
        e = show(cb.local_expr(0))
    except Exception:
        return v
    if re.search(r"\barg1\b|\bvar\d+\b", e):
        return v
    return re.sub(r"\barg2\b", lambda _m: m.group(2), e)


def advertised_limits(cx, inst, fields):
    """T7: what an endpoint advertises in its SYN / SYN-ACK is its configured limit (saturated to u32):
    the peer clamps its rate / packet sizes / outstanding bytes to the advertised numbers, so an
    advertisement that is not the configured value voids the limit the application asked for"""
    R = cx.R
    for fn, adt in (("client::Client::connect", "HandshakeSynFrame"), ("server::Server::handle_handshake_syn", "HandshakeSynAckFrame")):
        bb = R.body(fn)
        hit = False
        for loc, s in bb.assigns():
            rv = s["rv"]
            if rv["k"] == "agg" and rv.get("adt", "").endswith(adt):
                hit = True
                for f in fields:
                    v = show(bb.operand_expr(rv["ops"][rv["fields"].index(f)]))
                    inst.site(bb, loc, "%s.%s = %s" % (adt, f, v[:90]))
                    v = inline_local_closure_call(R, v)
                    src = saturated_u32_of(v)
                    if src is None or not re.fullmatch(r".*\.endpoint_config\.%s" % f, src):
                        inst.violation(bb.path, "advertised " + f, "the advertised %s is `%s`, not the configured one" % (f, v[:120]), at=bb.span_at(loc))
        if not hit:
            inst.violation(bb.path, adt, "%s literal not found (anchor)" % adt)


def emitter_no_abandon(cx, iid):
    """T2: a frame under construction in an emitter is never abandoned.  The fragments in it have already
    left the pending queue, so a frame that is dropped instead of finalised loses them: Unreliable and
    TimeSensitive fragments for good, resendable ones until their resend timer.  Rules:
      (1) in {Data,Ack}FrameEmitter::push, an Err return and the start of a new frame are reached only with
          no frame in progress — via the None arm of `in_progress_frame` or after finalize();
      (2) in emit_data_frames / emit_ack_frames, after a push every path to a normal return passes another
          push (whose Err returns are covered by (1)) or the emitter's finalize()."""
    R = cx.R
    with cx.instance(iid, "T2 PAIR (no abandoned frame)", "emitters: Err returns and new frames only with no frame in progress (None arm or after finalize); emit_*_frames finalises after its last push", floor=8) as inst:
        for fn, fin, newpat in (("DataFrameEmitter::push", "DataFrameEmitter::finalize", "DataFrameBuilder::new"), ("AckFrameEmitter::push", "AckFrameEmitter::finalize", "AckFrameBuilder::new"), ("AckFrameEmitter::push_dud", "AckFrameEmitter::finalize", "AckFrameBuilder::new")):
            b = R.body(fn)
            fa = cx.fa(b)
            fins = [l for l, t in b.calls(fin)]
            none_blocks = []
            for (bb, y, lab), lits in fa.edge_lits.items():
                if "is(arg1.in_progress_frame,None)" in lits:
                    none_blocks.append(Loc(y, 0))
            # Option::is_some(in_progress_frame) tests (push_dud)
            for (bb, y, lab), lits in fa.edge_lits.items():
                if any(re.fullmatch(r"is\(arg1\.in_progress_frame,None\)", l) for l in lits) and Loc(y, 0) not in none_blocks:
                    none_blocks.append(Loc(y, 0))
            sinks = [(loc, "return Err") for loc, kind, node in b.defs.get(0, []) if kind == "assign" and show(b.rvalue_expr(node["rv"])).startswith("Err{")]
            sinks += [(l, newpat) for l, t in b.calls(newpat)]
            for loc, lab in sinks:
                inst.site(b, loc, "%s: %s" % (fn, lab))
                # entering the None arm or calling finalize() both establish "no frame in progress";
                # Loc(y, 0) of a None-arm block blocks paths through that block (idx 0 < anything later)
                blockers = list(fins) + [Loc(l.bb, -1) for l in none_blocks]
                if loc.bb in {l.bb for l in none_blocks}:
                    continue
                w = b.reach_from_entry_avoiding(loc, blockers)
                if w is not None:
                    # push_dud returns early when a frame IS in progress (nothing to do, frame kept): not an abandon
                    facts = fa.at(loc) or []
                    if fn.endswith("push_dud") and lab == "return Err":
                        pass
                    inst.violation(b.path, lab + " with a frame in progress", "`%s` is reachable while a frame is under construction, without finalize(): the frame's fragments are dropped" % lab, at=b.span_at(loc), detail={"offending_path": b.path_spans(w)[:16]})
        for fn, em, fin in (("half_connection::HalfConnection::emit_data_frames", "DataFrameEmitter::push", "DataFrameEmitter::finalize"), ("half_connection::HalfConnection::emit_ack_frames", "re:AckFrameEmitter::push(_dud)?$", "AckFrameEmitter::finalize")):
            b = R.body(fn)
            pushes = [(l, R.short(t["fn"])) for l, t in b.calls(em)]
            fins = [l for l, t in b.calls(fin)]
            if not pushes or not fins:
                inst.violation(b.path, "emitter calls", "%s: expected push and finalize calls (anchor): %d / %d" % (fn.split("::")[-1], len(pushes), len(fins)))
                continue
            for l in fins:
                inst.site(b, l, fin)
            # Err results of push lead to `return` directly: they are exempt because (1) guarantees the frame was finalised.
            # The Ok continuation must reach finalize or another push.
            for l, lab in pushes:
                # blocks where the result is known Err: exits that are fine
                w = b.reach_exit_avoiding(l, fins + [p for p, _ in pushes if p != l])
                if w is not None:
                    # accept the path if it runs through an edge that matched the push result against Err
                    fa = cx.fa(b)
                    okp = False
                    for i in range(len(w) - 1):
                        for (bb, y, lb), lits in fa.edge_lits.items():
                            if bb == w[i] and y == w[i + 1] and any(re.search(r"is\(.*(push|push_dud)\(.*\),Err\)", x) for x in lits):
                                okp = True
                    if not okp:
                        inst.violation(b.path, lab + " not followed by finalize", "after a successful `%s` the function can return without finalising the emitter: the frame under construction is dropped" % lab, at=b.span_at(l), detail={"offending_path": b.path_spans(w)[:16]})
                inst.site(b, l, lab)


def removal_implies_fin(cx, iid):
    """T2 (converse of C17.c): a client leaves the server's address map only in its terminal state.  `state = Fin` is
    what drops the HalfConnection, makes `active_clients.retain(is_active)` forget the client and turns the timers
    that still hold an Rc to it into no-ops; an entry removed while Pending/Active/Closing keeps running (and its
    stale timer later removes whatever newer connection is stored under the same address)."""
    R = cx.R
    with cx.instance(iid, "T2 PAIR", "every clients.remove(address) in the server is preceded on all paths by `state = Fin` on that client", floor=4) as inst:
        n = 0
        for ob in R.all_bodies():
            if not ob.path.startswith("server::Server::"):
                continue
            rems = call_sites(ob, "HashMap::remove", r"arg1\.clients")
            if not rems:
                continue
            fins = []
            for loc, s in ob.assigns():
                if s["pl"]["p"] and show(ob.place_expr(s["pl"])).endswith(".state") and show(ob.rvalue_expr(s["rv"])).startswith("State::Fin"):
                    fins.append(loc)
            n += len(rems)
            cx.preceded_by(inst, ob, [(l, "clients.remove(address)") for l, _ in rems], fins, "clients.remove without state = Fin", "client.state = State::Fin")
        if n == 0:
            inst.violation("server::Server", "clients.remove", "no clients.remove site found in the server (anchor)")
        # ... and remove(address) is the only way an entry leaves the map: retain / drain / clear / extract_if would let
        # entries go without the terminal state (their timers then remove whatever is stored under the address later)
        ok_methods = {"get", "get_mut", "insert", "remove", "len", "is_empty", "contains_key", "iter", "values", "keys", "entry"}
        for ob in R.all_bodies():
            if not ob.path.startswith("server::"):
                continue
            for l, t in ob.calls():
                if not t.get("fn"):
                    continue
                sn = R.short(t["fn"])
                e = show(ob.call_expr(t))
                if sn.startswith("HashMap::") and e.startswith(sn + "(arg1.clients") and sn.split("::")[-1] not in ok_methods:
                    inst.site(ob, l, "clients accessed through " + sn)
                    inst.violation(ob.path, "clients." + sn.split("::")[-1], "%s changes the address map through %s: entries must leave one at a time, each after `state = Fin`" % (ob.path.split("::")[-1], sn), at=ob.span_at(l))


def resync_walk(cx, iid):
    """T5: PacketReceiver::resynchronize walks from base_id towards the sender's next id and stops at the first slot
    that still holds a produced-but-undelivered packet.  Every id it moves past — the base slot included — must
    have been tested *before* the step: a walk that steps first never looks at the base slot and lets the window
    advance over a complete packet the application has not read yet (its allocation is released while its payload
    stays in the delivery entries, and a Reliable packet is skipped)."""
    R = cx.R
    with cx.instance(iid, "T5 LOOP (test before step)", "resynchronize tests the produced-flag of an id before stepping past it, starting with base_id; the window is advanced to the id the walk stopped at", floor=2) as inst:
        b = R.body("PacketReceiver::resynchronize")
        walks = [(L, var, inits, end) for L, var, inits, end in _id_walks(b) if end == "arg2" and inits == ["arg1.base_id"]]
        if len(walks) != 1:
            inst.violation(b.path, "walk", "expected one walk `id = base_id; while id != sender_next_id { …; id = add(id,1) }` in resynchronize, found %d" % len(walks))
            return
        L, var, inits, end = walks[0]
        n = int(var[3:])
        step_bbs = {loc.bb for loc, kind, node in b.defs.get(n, []) if loc.bb in L["body"]}
        tests = set()
        pred_calls = set()  # the flag test spelled as a call of a pure helper: `!helper(self, id)` is the flag-clear fact
        for bb in L["body"]:
            t = b.term(bb)
            if t["k"] == "switch":
                from rules import inline_pure
                raw = b.operand_expr(t["op"])
                s = show(inline_pure(R, raw, keep=("packet_id::add", "packet_id::sub")))
                if re.search(r"arg1\.entry_flags\[div\(cast<usize>\(bitand\((arg1\.receive_window_mask,%s|%s,arg1\.receive_window_mask)\)\),64\)\]" % (var, var), s):
                    tests.add(bb)
                    inst.site(b, Loc(bb, 0), "produced-flag test of the walked id")
                    if raw[0] == "call" and show(raw) != s:
                        pred_calls.add(show(raw))
        if not tests:
            inst.violation(b.path, "flag test", "the walk no longer tests entry_flags of the id it is at")
            return
        # from the loop header, can the step be reached without passing a test?
        from collections import deque
        dq = deque([y for y, _ in b.succ[L["header"]] if y in L["body"]])
        seen = set()
        while dq:
            x = dq.popleft()
            if x in seen or x in tests:
                continue
            seen.add(x)
            if x in step_bbs:
                inst.violation(b.path, "step before test", "the walk steps past an id without having tested its produced-flag first (the base slot is never inspected)", at=b.span_at(Loc(x, 0)))
                break
            for y, _ in b.succ[x]:
                if y in L["body"] and y != L["header"]:
                    dq.append(y)
        # the stepping edge is the flag-clear edge, and the window is advanced to the walked id
        cs = [show(b.call_expr(t)) for l, t in b.calls("PacketReceiver::advance_window")]
        inst.site(b, None, "advance_window calls: %s" % cs)
        if cs != ["PacketReceiver::advance_window(arg1,%s)" % var]:
            inst.violation(b.path, "advance target", "resynchronize advances the window with %s, expected the id the walk stopped at" % cs)
        fa = cx.fa(b)
        for sb in step_bbs:
            clear = [[r"eq\(0,bitand\(arg1\.entry_flags\[.*\],shl\(1,.*\)\)\)"]] + [["!" + re.escape(pc)] for pc in sorted(pred_calls)]
            g, bad = dnf_holds(fa.at(Loc(sb, 0)), clear)
            if not g:
                inst.violation(b.path, "step over a produced packet", "the walk steps past an id whose produced-flag is not known to be clear", at=b.span_at(Loc(sb, 0)))


def heap_order(cx, iid, which):
    """T4 SIBLING: the timer queue (server events) and the resend queue are BinaryHeaps used as earliest-first
    queues.  std's BinaryHeap compares through PartialOrd's operators, the rest of the code through Ord: both must
    be the *reversed* order of the time field and agree with each other.  Accepted spellings of "reversed":
    reverse(a.t.cmp(b.t)) and b.t.cmp(a.t); partial_cmp = Some(<that>) or Some(self.cmp(other))."""
    R = cx.R
    TYPES = {"event": ("server::event_queue::Event", "time"), "resend": ("half_connection::resend_queue::Entry", "resend_time")}
    with cx.instance(iid, "T4 SIBLING (heap order)", "Ord::cmp and PartialOrd::partial_cmp of the earliest-first heaps are both the reversed order of the time field", floor=2) as inst:
        for w in which:
            ty, fld = TYPES[w]
            rev = (r"Ordering::reverse\(u64::cmp\(arg1\.%s,arg2\.%s\)\)" % (fld, fld), r"u64::cmp\(arg2\.%s,arg1\.%s\)" % (fld, fld))
            c = R.body("<%s as std::cmp::Ord>::cmp" % ty)
            pc = R.body("<%s as std::cmp::PartialOrd>::partial_cmp" % ty)
            ce, pe = show(c.local_expr(0)), show(pc.local_expr(0))
            inst.site(c, None, "%s::cmp = %s" % (ty.split("::")[-1], ce))
            inst.site(pc, None, "%s::partial_cmp = %s" % (ty.split("::")[-1], pe))
            spelled_out = False
            if ce == "var0":
                # match a.t.cmp(&b.t) { Less => Greater, Equal => Equal, Greater => Less }: the reversal written out
                fa = cx.fa(c)
                table = {}
                for dloc, kind, node in c.defs.get(0, []):
                    if kind != "assign":
                        continue
                    val = show(c.rvalue_expr(node["rv"]))
                    for alt in fa.at(dloc) or []:
                        for lit in alt:
                            mm = re.fullmatch(r"is\(u64::cmp\(arg1\.%s,arg2\.%s\),(Less|Equal|Greater)\)" % (fld, fld), lit)
                            if mm:
                                table.setdefault(mm.group(1), set()).add(val)
                spelled_out = table == {"Less": {"Ordering::Greater{}"}, "Equal": {"Ordering::Equal{}"}, "Greater": {"Ordering::Less{}"}}
                inst.site(c, None, "cmp table: %s" % {k: sorted(v) for k, v in sorted(table.items())})
            if not spelled_out and not any(re.fullmatch(x, ce) for x in rev):
                inst.violation(c.path, "cmp", "%s::cmp is `%s`, expected the reversed order of %s (earliest first in a max-heap)" % (ty, ce, fld))
            okp = any(re.fullmatch(r"Some\{%s\}" % x, pe) for x in rev) or re.fullmatch(r"Some\{<%s as std::cmp::Ord>::cmp\(arg1,arg2\)\}|Some\{%s::cmp\(arg1,arg2\)\}|Some\{Ord::cmp\(arg1,arg2\)\}" % (re.escape(ty), re.escape(ty.split("::")[-1])), pe)
            if not okp:
                inst.violation(pc.path, "partial_cmp", "%s::partial_cmp is `%s`: it disagrees with Ord::cmp / is not the reversed order of %s, and BinaryHeap orders through it" % (ty, pe, fld))
            # the queue really is a BinaryHeap of this type


def resend_ref_in_own_frame(cx, iid):
    """T2: a fragment is recorded in the resend list of the frame that actually carries it: in DataFrameEmitter::push
    every `resend_refs.push` is preceded, with no finalize() in between, by the `fbuilder.add` of the same datagram.
    A reference recorded before the frame is closed and the datagram moved to the next frame makes a genuine
    acknowledgement of the first frame acknowledge a fragment it never carried (which is then never resent)."""
    R = cx.R
    with cx.instance(iid, "T2 PAIR (order)", "resend_refs.push follows fbuilder.add of the same frame on every path, with no finalize between them", floor=2) as inst:
        b = R.body("DataFrameEmitter::push")
        pushes = [(l, "resend_refs.push") for l, t in b.calls("Vec::push") if len(t["args"]) == 2 and show(b.operand_expr(t["args"][1])).startswith("FragmentRef::new(")]
        adds = [l for l, t in b.calls("DataFrameBuilder::add")]
        fins = [l for l, t in b.calls("DataFrameEmitter::finalize")]
        if not pushes or not adds:
            inst.violation(b.path, "anchors", "DataFrameEmitter::push: resend_refs.push / fbuilder.add not found (anchor)")
            return
        cx.preceded_by(inst, b, pushes, adds, "resend reference recorded for a datagram that was not added", "fbuilder.add(datagram)")
        # no path add -> finalize -> push (or entry -> push -> finalize -> add): from a finalize, a push is reachable only through an add
        for f in fins:
            for pl, lab in pushes:
                # search forward from f avoiding adds
                seen = set()
                st = [y for y, _ in b.succ[f.bb]]
                bad = False
                while st:
                    x = st.pop()
                    if x in seen:
                        continue
                    seen.add(x)
                    if any(a.bb == x for a in adds):
                        continue
                    if x == pl.bb:
                        bad = True
                        break
                    st.extend(y for y, _ in b.succ[x])
                if bad:
                    inst.violation(b.path, "resend reference in the wrong frame", "after a finalize() the resend reference can be recorded without the datagram having been added to the new frame", at=b.span_at(pl))
        # and a push is never followed by a finalize + add of the same datagram
        for pl, lab in pushes:
            seen = set()
            st = [y for y, _ in b.succ[pl.bb]]
            hit_fin = False
            while st:
                x = st.pop()
                if x in seen:
                    continue
                seen.add(x)
                if any(a.bb == x for a in adds):
                    inst.violation(b.path, "datagram added after its resend reference", "a resend reference is recorded before the datagram is (re-)added: it ends up in an earlier frame's list", at=b.span_at(pl))
                    break
                st.extend(y for y, _ in b.succ[x])


def resend_refs_untouched(cx, iid):
    """T3 WHO-MAY: the list of fragments a data frame carries for retransmission is only ever appended to while the
    frame is built and handed to the frame log whole: in the emitter module the only accesses of `resend_refs` are
    Vec::new (a fresh frame), Vec::push (one reference per resendable datagram added) and the move into
    FrameQueue::push.  A list that is de-duplicated, truncated or filtered before it is logged makes the frame's
    acknowledgement leave some of its fragments unacknowledged (they are retransmitted although their ack was
    processed) or, worse, acknowledge the wrong ones."""
    R = cx.R
    with cx.instance(iid, "T3 WHO-MAY", "DataFrameEmitter touches resend_refs only through Vec::new / Vec::push / the move into FrameQueue::push", floor=2) as inst:
        n = 0
        for b in R.all_bodies():
            if "half_connection::emit::" not in b.path:
                continue
            for l, t in b.calls():
                if not t.get("fn"):
                    continue
                e = show(b.call_expr(t))
                if "resend_refs" not in e:
                    continue
                sn = R.short(t["fn"])
                n += 1
                inst.site(b, l, "%s: %s" % (b.path.split("::")[-1], sn))
                ok = (sn == "Vec::push" and re.fullmatch(r"Vec::push\(arg1\.in_progress_frame@Some\.0\.resend_refs,FragmentRef::new\(arg2,arg3\)\)", e)) or \
                     (sn == "Vec::into_boxed_slice" and re.fullmatch(r"Vec::into_boxed_slice\(Option::take\(arg1\.in_progress_frame\)@Some\.0\.resend_refs\)", e)) or \
                     (sn == "FrameQueue::push" and e.count("resend_refs") == 1 and re.search(r",(Vec::into_boxed_slice\()?Option::take\(arg1\.in_progress_frame\)@Some\.0\.resend_refs\)?,", e))
                if not ok:
                    inst.violation(b.path, "resend_refs access", "the frame's resend list is touched by `%s`: it may only be appended to and then logged whole" % e[:140], at=b.span_at(l))
        if n < 2:
            inst.violation("half_connection::emit::DataFrameEmitter", "resend_refs", "push / finalize no longer handle resend_refs (anchor)")


def loss_rate_shape(cx, iid):
    """T7/T9 (RFC 5348 5.4): the loss event rate is W_tot / max(I_tot0, I_tot1) with the weights 1,1,1,1,.8,.6,.4,.2;
    I_tot0 sums intervals 0..n-2 with weight w_i, I_tot1 sums intervals 1..n-1 with weight w_{i-1}.  With `min` in
    place of `max` the open (loss-free) interval can never lower the rate again: after a lossy period the allowed
    rate stays pinned near the minimum for as long as no further loss occurs."""
    R = cx.R
    import struct
    with cx.instance(iid, "T7 SHAPE + T9", "compute_loss_rate = W_tot / max(I_tot0, I_tot1) over the RFC 5348 weights; eight weights 1,1,1,1,0.8,0.6,0.4,0.2", floor=3) as inst:
        c = R.const("loss_rate::LossIntervalQueue::WEIGHTS")
        raw = bytes.fromhex(c.get("bytes_hex", ""))
        ws = [struct.unpack("<d", raw[i:i + 8])[0] for i in range(0, len(raw), 8)]
        inst.site("<const>", None, "WEIGHTS = %s" % ws)
        if [round(w, 6) for w in ws] != [1, 1, 1, 1, 0.8, 0.6, 0.4, 0.2]:
            inst.violation("half_connection::loss_rate::LossIntervalQueue::WEIGHTS", "weights", "loss interval weights are %s, RFC 5348 5.4 has 1,1,1,1,0.8,0.6,0.4,0.2" % ws)
        b = R.body("LossIntervalQueue::compute_loss_rate")
        rets = [(loc, show(b.rvalue_expr(node["rv"]))) for loc, kind, node in b.defs.get(0, []) if kind == "assign"]
        multi = [v for l, v in rets if "f64::max" in v or "f64::min" in v or re.search(r"div\(var\d+,", v)]
        inst.site(b, None, "loss rate (n > 1) = %s" % multi)
        m = re.fullmatch(r"div\((var\d+),f64::max\((var\d+),(var\d+)\)\)", multi[0]) if len(multi) == 1 else None
        if not m:
            inst.violation(b.path, "loss rate", "the loss event rate for more than one interval is %s, expected W_tot / max(I_tot0, I_tot1)" % multi)
            return
        wv, av, bv = m.groups()
        # Each accumulator is read as a sum over a half-open range of the loop variable i:
        #   acc += l[i + a] * w[i + b]   for i in lo..hi      ==   sum over entries e in [lo+a, hi+a) of l_e * w_(e-d), d = a-b
        # so that fused / re-indexed loops compare equal to the two loops of RFC 5348 5.4.
        from rules import poly, poly_str
        from fractions import Fraction

        def lin(e):
            """(iterator local K, constant offset) when e == Range::next(varK)@Some.0 + c"""
            try:
                pl = poly(e)
            except Exception:
                return None
            K, off = None, 0
            for mono, co in pl.items():
                if mono == ():
                    off = co
                    continue
                mm = re.fullmatch(r"Range::next\(var(\d+)\)@Some\.0", mono[0]) if len(mono) == 1 else None
                if not mm or co != 1 or K is not None:
                    return None
                K = int(mm.group(1))
            if K is None or Fraction(off).denominator != 1:
                return None
            return K, int(off)

        def rng_of(K):
            for loc, kind, node in b.defs.get(K, []):
                ce = b.call_expr(node) if kind == "call" else b.rvalue_expr(node["rv"]) if kind == "assign" else None
                if ce and ce[0] == "call" and ce[1].endswith("into_iter") and ce[2] and ce[2][0][0] == "agg" and ce[2][0][1] == "Range":
                    return ce[2][0][2][0], ce[2][0][2][1]
            return None

        def index_of(pe, what):
            """index expression of entries[..].length / WEIGHTS[..]"""
            if pe[0] == "call" and pe[1] in ("f64::from", "From::from", "<f64 as From<u32>>::from") and len(pe[2]) == 1:
                pe = pe[2][0]
            if pe[0] == "cast":
                pe = pe[2]
            if pe[0] != "proj":
                return None
            els = pe[2]
            if what == "len" and pe[1] == ("arg", 1) and len(els) == 3 and els[0] == "entries" and isinstance(els[1], tuple) and els[2] == "length":
                return els[1][1]
            if what == "w" and pe[1][0] == "const" and str(pe[1][1]).endswith("LossIntervalQueue::WEIGHTS") and len(els) == 1 and isinstance(els[0], tuple):
                return els[0][1]
            return None

        def shift(e, c):
            return poly_str(("bin", "Add", e, ("const", str(c), "usize", None))) if c else poly_str(e)

        def read_sum(v, weighted):
            n = int(v[3:])
            ups = [b.rvalue_expr(node["rv"]) for loc, kind, node in b.defs.get(n, []) if kind == "assign"]
            ups = [u for u in ups if show(u) != "0.0"]
            if len(ups) != 1 or ups[0][0] != "bin" or ups[0][1] != "Add":
                return None
            term = ups[0][3] if ups[0][2] == ("var", n) else ups[0][2] if ups[0][3] == ("var", n) else None
            if term is None:
                return None
            if not weighted:
                wi = index_of(term, "w")
                lw = lin(wi) if wi is not None else None
                r = rng_of(lw[0]) if lw else None
                return ("w", shift(r[0], lw[1]), shift(r[1], lw[1])) if r else None
            if term[0] != "bin" or term[1] != "Mul":
                return None
            for x, y in ((term[2], term[3]), (term[3], term[2])):
                li, wi = index_of(x, "len"), index_of(y, "w")
                if li is None or wi is None:
                    continue
                ll, lw = lin(li), lin(wi)
                if not ll or not lw or ll[0] != lw[0]:
                    return None
                r = rng_of(ll[0])
                if not r:
                    return None
                return (ll[1] - lw[1], shift(r[0], ll[1]), shift(r[1], ll[1]))
            return None

        N = "VecDeque::len(arg1.entries)"
        sw = read_sum(wv, False)
        sa, sb = read_sum(av, True), read_sum(bv, True)
        inst.site(b, None, "W_tot = sum w over %s; interval sums (shift d, first entry, end entry): %s, %s" % (sw, sa, sb))
        want_w = ("w", "0", "-1 + " + N)
        want = sorted([(0, "0", "-1 + " + N), (1, "1", N)])
        if sw != want_w or sa is None or sb is None or sorted([sa, sb]) != want:
            inst.violation(b.path, "interval sums", "the weighted interval sums are not I_tot0 = sum_{e=0}^{n-2} l_e w_e and I_tot1 = sum_{e=1}^{n-1} l_e w_(e-1) with W_tot = sum_{i=0}^{n-2} w_i: got W %s, I %s and %s" % (sw, sa, sb))
        # which formula applies when: 0 for an empty history, 1/l_0 for a single interval, the weighted mean from two on;
        # the history is cut to len(WEIGHTS) + 1 intervals (the open one plus eight closed ones)
        fa = cx.fa(b)
        seen = set()
        for dloc, kind, node in b.defs.get(0, []):
            v = show(b.rvalue_expr(node["rv"])) if kind == "assign" else show(b.call_expr(node))
            alts = fa.at(dloc) or []
            LN = r"VecDeque::len\(arg1\.entries\)"
            if v in ("0.0", "0"):
                case, need = "empty", [[r"eq\(0,%s\)" % LN]]
            elif "f64::max(" in v:
                case, need = "general", [[r"lt\(1,%s\)" % LN], [r"ne\(0,%s\)" % LN, r"ne\(1,%s\)" % LN], [r"le\(2,%s\)" % LN]]
            else:
                case, need = "single", [[r"le\(%s,1\)" % LN, r"ne\(0,%s\)" % LN], [r"eq\(1,%s\)" % LN], [r"lt\(%s,2\)" % LN, r"ne\(0,%s\)" % LN]]
                if not re.fullmatch(r"div\((.*WEIGHTS\[0\]),mul\((cast<f64>\(arg1\.entries\[0\]\.length\),\1|\1,cast<f64>\(arg1\.entries\[0\]\.length\))\)\)", v):
                    inst.violation(b.path, "single-interval loss rate", "with one loss interval the loss rate is `%s`, expected w_0 / (l_0 * w_0)" % v[:140], at=b.span_at(dloc))
            seen.add(case)
            from mirlib import alt_satisfies
            inst.site(b, dloc, "loss rate, %s history" % case)
            if not alts or any(not any(alt_satisfies(a, conj) for conj in need) for a in alts):
                inst.violation(b.path, "loss-rate case " + case, "the %s-history formula of compute_loss_rate is reachable outside its case (%s)" % (case, " and ".join(x.replace("\\", "") for x in need[0])), at=b.span_at(dloc))
        if seen != {"empty", "general", "single"} and b.defs.get(0):
            inst.violation(b.path, "loss-rate cases", "compute_loss_rate does not distinguish the empty, single-interval and general history (found %s)" % sorted(seen))
        pn = R.body("LossIntervalQueue::push_nack")
        tr = [show(pn.call_expr(t)) for l, t in pn.calls("VecDeque::truncate")]
        inst.site(pn, None, "history cut: %s" % tr)
        if tr != ["VecDeque::truncate(arg1.entries,%d)" % (len(ws) + 1)]:
            inst.violation(pn.path, "history length", "push_nack cuts the loss history as %s, expected truncate(%d) = the open interval plus one per weight" % (tr, len(ws) + 1))


def active_timeout_sweep(cx, iid):
    """T2: Server::handle_events looks at every active client's deadline on every call: the sweep over active_clients
    is reached on all paths (a `return` out of the timer-draining loop would skip it whenever some other client still
    has a timer queued, so silent peers would never time out and never free their slots)."""
    R = cx.R
    with cx.instance(iid, "T2 PAIR (presence)", "Server::handle_events reaches the active-timeout sweep on every path; Client::handle_events tests the Active deadline", floor=2) as inst:
        b = R.body("server::Server::handle_events")
        sweeps = [l for l, t in b.calls("re:(\\[T\\]::iter|Vec::iter|I::into_iter)$") if "arg1.active_clients" in show(b.call_expr(t))]
        for l in sweeps:
            inst.site(b, l, "sweep over active_clients")
        if not sweeps or b.reach_exit_avoiding(Loc(0, -1), sweeps) is not None:
            inst.violation(b.path, "active-timeout sweep", "handle_events can return without looking at the active clients' deadlines")
        pushes = event_pushes(b, r"Error\{.*Timeout")
        for l, lab in pushes:
            inst.site(b, l, lab)
        if not pushes:
            inst.violation(b.path, "Error(Timeout)", "the server no longer reports active timeouts (anchor)")


def config_verbatim(cx, iid):
    """T9: the limits an endpoint enforces are the ones the application configured: Server::bind / Client::connect store
    the config argument itself (not a rebuilt or adjusted copy) and nothing writes it afterwards."""
    R = cx.R
    with cx.instance(iid, "T9 WHO-MAY-WRITE (config)", "Server::bind and Client::connect store the application's config unchanged; no function writes self.config afterwards", floor=2) as inst:
        for fn, adt in (("server::Server::bind", "Server"), ("client::Client::connect", "Client")):
            b = R.body(fn)
            found = False
            for loc, st in b.assigns():
                rv = st["rv"]
                if rv["k"] == "agg" and rv.get("adt", "").endswith("::" + adt) and "config" in (rv.get("fields") or []):
                    v = show(b.operand_expr(rv["ops"][rv["fields"].index("config")]))
                    inst.site(b, loc, "%s.config = %s" % (adt, v))
                    found = True
                    if v != "arg2":
                        inst.violation(b.path, "%s.config" % adt, "%s stores `%s` as its configuration instead of the config it was given: the limits enforced are no longer the ones configured" % (fn.split("::")[-1], v[:160]), at=b.span_at(loc))
            if not found:
                inst.violation(b.path, "%s.config" % adt, "construction of %s with its config not found (anchor)" % adt)
        for b in R.all_bodies():
            if not (b.path.startswith("server::Server::") or b.path.startswith("client::Client::")):
                continue
            for loc, node, ps in b.field_writes(r"arg1\.config(\..*)?"):
                inst.violation(b.path, "write of " + ps, "%s rewrites the endpoint's configuration after construction" % b.path.split("::")[-1], at=b.span_at(loc))


def window_pass_guard(cx, iid):
    """T1: PacketReceiver::receive moves the window base past an entry only if the entry's data flag is clear (the
    packet has been delivered or was a dud whose flag the delivery loop cleared).  Passing a held packet releases its
    allocation while its bytes stay in the delivery entries, and the stale slot is later taken for the packet that maps
    to the same index one window later (fix ccdb498)."""
    R = cx.R
    with cx.instance(iid, "T1 GUARD", "in receive(), every step of the new window base past an entry holds `data flag clear`", floor=1) as inst:
        b = R.body("PacketReceiver::receive")
        fa = cx.fa(b)
        aw = list(b.calls("PacketReceiver::advance_window"))
        if len(aw) != 1:
            inst.violation(b.path, "advance_window", "expected one advance_window call in receive (anchor), found %d" % len(aw))
            return
        from rules import root_local
        n = root_local(b, aw[0][1]["args"][1])
        if n is None:
            inst.violation(b.path, "new base", "the id handed to advance_window is not a local (anchor)")
            return
        steps = 0
        for loc, kind, node in b.defs.get(n, []):
            if kind != "assign":
                continue
            v = show(b.rvalue_expr(node["rv"]))
            if v == "arg1.base_id":
                continue
            steps += 1
            inst.site(b, loc, "new_base_id = " + v[:60])
            good, bad = dnf_holds(fa.at(loc), [[r"eq\(0,bitand\(arg1\.data_flags\[.*\],shl\(1,.*\)\)\)"]])
            if not good:
                inst.violation(b.path, "window base step", "the new window base is moved to `%s` without the entry's data flag having been tested clear: the window passes a packet whose data is still held" % v[:60], at=b.span_at(loc))
        if steps == 0:
            inst.violation(b.path, "window base step", "no step of the new window base found in receive (anchor)")


def forget_shape(cx, iid):
    """T7 + T1x: a sent frame stays acknowledgeable for exactly four round-trip times: step() forgets frames sent
    strictly before now - 4*RTT (saturating), find_expiration_cutoff counts the leading frames with
    send_time < threshold, and forget_frames culls exactly when that cutoff has moved past the *log's* base.
    Forgetting sooner makes a genuine acknowledgement arrive for an unknown frame (the fragment is resent although it
    was acknowledged); forgetting later lets a stale acknowledgement take effect (cancelled resends, an RTT sample of
    the frame's age)."""
    R = cx.R
    with cx.instance(iid, "T7 SHAPE + T1x", "frames are forgotten iff sent strictly before now - 4*RTT; the cull runs iff the cutoff differs from the frame log's base", floor=4) as inst:
        st = R.body("half_connection::HalfConnection::step")
        calls = [(l, st.call_expr(t)) for l, t in st.calls("FrameQueue::forget_frames")]
        if len(calls) != 1:
            inst.violation(st.path, "forget_frames", "expected one forget_frames call in step() (anchor), found %d" % len(calls))
        for l, ce in calls:
            from rules import canon_value
            th = show(canon_value(cx, st, ce[2][1]))
            inst.site(st, l, "threshold = " + th[:160])
            NOW = r"cast<u64>\(Duration::as_millis\(Instant::sub\(Instant::now\(\),arg1\.time_base\)\)\)"
            RTT = r"Option::unwrap_or\(SendRateComp::rtt_ms\(arg1\.send_rate_comp\),half_connection::INITIAL_RTT_ESTIMATE_MS\)"
            if not re.fullmatch(r"u64::saturating_sub\(%s,mul\((?:4,%s|%s,4)\)\)" % (NOW, RTT, RTT), th):
                inst.violation(st.path, "forget threshold", "step() forgets frames sent before `%s`; expected now_ms.saturating_sub(4 * rtt_ms)" % th[:200], at=st.span_at(l))
        fc = R.body("FrameLog::find_expiration_cutoff")
        fa = cx.fa(fc)
        incs = 0
        for n, ds in fc.defs.items():
            for loc, kind, node in ds:
                if kind != "assign" or len(ds) < 2:
                    continue
                v = show(fc.rvalue_expr(node["rv"]))
                if re.fullmatch(r"u32::wrapping_add\(var%d,1\)" % n, v):
                    incs += 1
                    inst.site(fc, loc, "cutoff += 1")
                    alts = fa.at(loc) or []
                    good, _ = dnf_holds(alts, [[r"lt\(Iter::next\(var\d+\)@Some\.0\.send_time_ms,arg2\)"]])
                    if not good:
                        inst.violation(fc.path, "expiry test", "a frame is counted as expired without `send_time_ms < threshold` (a frame sent at the threshold instant, e.g. at t = 0 while the threshold is still 0, must stay known)", at=fc.span_at(loc))
        tw = None
        if incs == 0 and fc.is_single_def(0):
            # the same count spelled with iterator combinators: base_id + take_while(|f| f.send_time_ms < threshold).count()
            rv = show(fc.local_expr(0))
            m = re.fullmatch(r"u32::wrapping_add\(arg1\.base_id,cast<u32>\(Iterator::count\(Iterator::take_while\(VecDeque::iter\(arg1\.frames\),closure:(\S+?)\{arg2\}\)\)\)\)", rv)
            if m:
                try:
                    tw = show(R.body(m.group(1)).local_expr(0))
                except Exception:
                    tw = None
                inst.site(fc, None, "cutoff = base_id + take_while(%s).count()" % tw)
                if tw != "lt(arg2.send_time_ms,arg1.0)":
                    inst.violation(fc.path, "expiry test", "find_expiration_cutoff counts the leading frames with `%s`; expected send_time_ms < threshold" % tw)
        if incs != 1 and tw is None:
            inst.violation(fc.path, "cutoff", "expected one counting step in find_expiration_cutoff (anchor), found %d" % incs)
        ret = show(fc.local_expr(0)) if fc.is_single_def(0) else None
        ff = R.body("FrameQueue::forget_frames")
        ffa = cx.fa(ff)
        D = r"u32::wrapping_sub\(FrameLog::find_expiration_cutoff\(arg1\.frame_log,arg2\),FrameLog::base_id\(arg1\.frame_log\)\)"
        culls = call_sites(ff, "FrameQueue::cull_log_entries")
        for l, lab in culls:
            inst.site(ff, l, lab[:100])
            if not re.fullmatch(r"FrameQueue::cull_log_entries\(arg1,FrameLog::find_expiration_cutoff\(arg1\.frame_log,arg2\),arg3\)", lab) and "(…)" not in lab:
                inst.violation(ff.path, "cull argument", "forget_frames culls up to `%s`, expected the expiration cutoff" % lab[:120], at=ff.span_at(l))
        if len(culls) != 1:
            inst.violation(ff.path, "cull_log_entries", "expected one cull site in forget_frames (anchor)")
        else:
            tl = {culls[0][0].bb}
            for (x, y, lab), lits in ffa.edge_lits.items():
                # an edge that leaves the path to the cull must be the `cutoff == log base` edge, and nothing else
                if _reaches(ff, y, tl) or not _reaches(ff, x, tl):
                    continue
                inst.site(ff, Loc(x, 0), "edge that skips the cull: " + " ".join(lits)[:120])
                C_, B_ = r"FrameLog::find_expiration_cutoff\(arg1\.frame_log,arg2\)", r"FrameLog::base_id\(arg1\.frame_log\)"
                if not any(re.fullmatch(r"eq\(0,%s\)" % D, z) or re.fullmatch(r"eq\((?:%s,%s|%s,%s)\)" % (C_, B_, B_, C_), z) for z in lits):
                    inst.violation(ff.path, "cull skipped", "forget_frames skips the cull under `%s`; expected only when the cutoff equals the frame log's base" % " ".join(lits)[:200])


def _reaches(b, x, targets):
    seen, st = set(), [x]
    while st:
        z = st.pop()
        if z in targets:
            return True
        if z in seen:
            continue
        seen.add(z)
        st.extend(y for y, _ in b.succ[z])
    return False


def packet_ack_exact(cx, iid):
    """T1x: PacketSender::acknowledge applies every acknowledgement whose base lies in [base, next] — including the one
    that reports a completely full window consumed — and refuses only ids outside the id space or beyond what was sent.
    A further refusal (e.g. `delta >= window_size`) leaves a full packet window closed for good once the intermediate
    acknowledgements were lost."""
    R = cx.R
    with cx.instance(iid, "T1x EXACT-GUARD", "PacketSender::acknowledge processes the ack exactly under is_valid(id) and id - base <= next - base", floor=1) as inst:
        b = R.body("PacketSender::acknowledge")
        fa = cx.fa(b)
        Ls = b.loops()
        if len(Ls) != 1:
            inst.violation(b.path, "release loop", "expected one release loop in acknowledge (anchor), found %d" % len(Ls))
            return
        allowed = [r"packet_id::is_valid\(arg2\)", r"le\(packet_id::sub\(arg2,arg1\.base_id\),packet_id::sub\(arg1\.next_id,arg1\.base_id\)\)"]
        alts = fa.at_loop_entry(Ls[0]) or []
        inst.site(b, Loc(Ls[0]["header"], 0), "release loop entered under %s" % [sorted(a) for a in alts][:2])
        if not alts:
            inst.violation(b.path, "release loop", "no facts at the release loop (anchor)")
        for alt in alts:
            for lit in sorted(alt):
                if "<=>" in lit or ":=" in lit:
                    continue
                if re.search(r"\barg2\b", lit) and not any(re.fullmatch(a, lit) for a in allowed):
                    inst.violation(b.path, "extra condition on the acknowledged base", "acknowledge() applies an acknowledgement only under `%s` as well: a base it should accept (anything from the current base up to next_id, a full window included) is refused" % lit[:160])
            for a in allowed:
                if not any(re.fullmatch(a, lit) for lit in alt):
                    inst.violation(b.path, "missing refusal", "the release loop is entered without `%s`" % a.replace("\\", ""))


def frame_forward_exact(cx, iid):
    """T1x + T2: a data / ack / sync frame that reaches an Active connection is handed to its HalfConnection
    unconditionally: the forwarding call is reached on every path through the Active arm, and nothing about the
    frame's contents decides whether it is forwarded (validation is the half connection's business: an ack frame
    without ack groups still carries the window bases; the largest packet id is a valid base)."""
    R = cx.R
    table = [(side, h, "HalfConnection::handle_%s_frame" % k) for side in ("client::Client", "server::Server") for h, k in (("handle_data", "data"), ("handle_ack", "ack"), ("handle_sync", "sync"))]
    with cx.instance(iid, "T1x EXACT-GUARD + T2", "each of the six frame handlers forwards to the half connection on every path of its Active arm and under no condition on the frame", floor=6) as inst:
        for side, h, callee in table:
            b = R.body("%s::%s" % (side, h))
            fa = cx.fa(b)
            fw = list(b.calls(callee))
            if len(fw) != 1:
                inst.violation(b.path, callee, "expected one forwarding call (anchor), found %d" % len(fw))
                continue
            loc, t = fw[0]
            inst.site(b, loc, "%s forwards to %s" % (h, callee.split("::")[-1]))
            from rules import root_local
            fr = root_local(b, t["args"][-1])
            frx = re.compile(r"\barg%d\b" % fr) if fr is not None and 1 <= fr <= b.argc else None
            for alt in fa.at(loc) or []:
                for lit in sorted(alt):
                    if "<=>" in lit or ":=" in lit:
                        continue
                    if frx is not None and frx.search(lit):
                        inst.violation(b.path, "forwarding conditioned on the frame", "%s::%s forwards the frame only under `%s`: whether a frame is applied is decided by the half connection, not by the endpoint" % (side.split("::")[-1], h, lit[:140]), at=b.span_at(loc))
            hit = False
            for (x, y, lab), lits in fa.edge_lits.items():
                if any(re.fullmatch(r"is\(.*state,Active\)", z) for z in lits):
                    hit = True
                    if b.reach_exit_avoiding(Loc(y, -1), [loc]) is not None:
                        inst.violation(b.path, "Active arm without forwarding", "%s::%s can leave its Active arm without handing the frame to the half connection" % (side.split("::")[-1], h), at=b.span_at(loc))
            if not hit:
                inst.violation(b.path, "Active arm", "no Active arm found in %s (anchor)" % h)


def half_connection_accept_exact(cx, iid):
    """T1x: what the half connection does with a frame depends on the frame only through the reviewed acceptance
    tests: a data frame's datagrams are processed iff its id lies in the frame receive window; a sync frame's ids are
    applied iff present; an ack frame's window bases and groups are always handed on (their own validation happens in
    PacketSender::acknowledge / FrameQueue, C11.r / C11.m / C15).  Any further condition on the frame at these call
    sites is a refusal nobody reviewed (an ack "fast path", a size heuristic, ...)."""
    R = cx.R
    HCp = "half_connection::HalfConnection::"
    WC = r"FrameAckQueue::window_contains\(arg1\.frame_ack_queue,arg2\.sequence_id\)"
    table = [
        ("handle_data_frame", "PacketReceiver::handle_datagram", [WC]),
        ("handle_data_frame", "FrameAckQueue::mark_seen", [WC]),
        ("handle_sync_frame", "PacketReceiver::resynchronize", [r"is\(arg2\.next_(frame|packet)_id,(Some|None)\)"]),
        ("handle_sync_frame", "FrameAckQueue::resynchronize", [r"is\(arg2\.next_(frame|packet)_id,(Some|None)\)"]),
        ("handle_ack_frame", "PacketSender::acknowledge", []),
        ("handle_ack_frame", "FrameQueue::acknowledge_group", []),
        ("handle_ack_frame", "FrameQueue::advance_transfer_window", []),
    ]
    with cx.instance(iid, "T1x EXACT-GUARD", "the half connection's frame handlers condition their processing calls on the frame only through the reviewed acceptance tests", floor=7) as inst:
        for fn, callee, allowed in table:
            b = R.body(HCp + fn)
            fa = cx.fa(b)
            sites = list(b.calls(callee))
            if not sites:
                inst.violation(b.path, callee, "%s no longer calls %s (anchor)" % (fn, callee))
                continue
            for loc, t in sites:
                inst.site(b, loc, "%s -> %s" % (fn, callee.split("::")[-1]))
                for alt in fa.at(loc) or []:
                    for lit in sorted(alt):
                        if "<=>" in lit or ":=" in lit or not re.search(r"\barg2\b", lit):
                            continue
                        if not any(re.fullmatch(a, lit) for a in allowed):
                            inst.violation(b.path, "%s conditioned on the frame" % callee.split("::")[-1],
                                           "%s calls %s only under `%s`: a condition on the frame that is not one of the reviewed acceptance tests" % (fn, callee, lit[:140]), at=b.span_at(loc))


def _ctor(R, fn, adt):
    b = R.body(fn)
    for loc, s2 in b.assigns():
        rv = s2["rv"]
        if rv["k"] == "agg" and rv.get("adt", "").endswith(adt) and rv.get("fields"):
            return b, loc, {n: show(b.operand_expr(o)) for n, o in zip(rv["fields"], rv["ops"])}
    return b, None, {}


def ctor_initial_state(cx, iid):
    """T7: the constructors start the windows, counters and the credit where the rest of the code assumes they start:
    the window size stored is the one the slot table and the mask were built for (a sender told `4096` with a table of 4
    overwrites live slots), the windows start empty at the negotiated ids, counters at 0, and the flush credit at 0 (the
    one-frame overdraft is the only slack the rate bound has)."""
    R = cx.R
    want = {
        ("PacketSender::new", "PacketSender"): {"window_size": "arg1", "window_mask": "sub(arg1,1)", "base_id": "arg2", "next_id": "arg2", "alloc": "0", "total_size": "0"},
        ("PacketReceiver::new", "PacketReceiver"): {"receive_window_size": "arg1", "receive_window_mask": "sub(arg1,1)", "base_id": "arg2", "end_id": "arg2"},
        ("half_connection::HalfConnection::new", "HalfConnection"): {"flush_alloc": "0", "sync_reply": "false"},
        ("RecvRateSet::reset", "RecvEntry"): {"value": "arg3", "timestamp_ms": "arg2", "is_initial": "false"},
        ("RecvRateSet::reset_initial", "RecvEntry"): {"value": "u32::max_value()", "timestamp_ms": "arg2", "is_initial": "true"},
        # a logged frame records exactly what the emitter hands over: its size, send time, nonce and the whole list of
        # resendable fragments it carries (a shortened list leaves acknowledged fragments marked unacknowledged)
        ("FrameQueue::push", "frame_queue::Entry"): {"size": "cast<u32>(arg2)", "send_time_ms": "arg3", "fragment_refs": "arg4", "nonce": "arg5", "acked": "false"},
    }
    with cx.instance(iid, "T7 SHAPE (constructors)", "PacketSender / PacketReceiver / HalfConnection start with the window size they were given, empty windows at the negotiated ids, zero counters and zero flush credit; RecvRateSet::reset stores the rate it was given", floor=4) as inst:
        for (fn, adt), fields in want.items():
            b, loc, got = _ctor(R, fn, adt)
            if loc is None:
                inst.violation(b.path, adt + " literal", "%s no longer builds a %s literal (anchor)" % (fn, adt))
                continue
            inst.site(b, loc, "%s{%s}" % (adt, ", ".join("%s: %s" % (k, got.get(k)) for k in fields)))
            for k, v in fields.items():
                if got.get(k) != v:
                    inst.violation(b.path, "%s.%s" % (adt, k), "%s initialises %s to `%s`, expected `%s`" % (fn.split("::")[-2] + "::" + fn.split("::")[-1], k, str(got.get(k))[:80], v), at=b.span_at(loc))
        # the receiver enforces the allocation limit it was given (the one its side advertised), not a derived one
        pr = R.body("PacketReceiver::new")
        aw = [show(pr.call_expr(t)) for l, t in pr.calls("AssemblyWindow::new")]
        inst.site(pr, None, "PacketReceiver::new -> %s" % aw)
        if aw != ["AssemblyWindow::new(arg3)"]:
            inst.violation(pr.path, "AssemblyWindow::new", "PacketReceiver::new creates its assembly window as %s, expected AssemblyWindow::new(max_alloc) with the limit it was given" % aw)


def cull_always_drains(cx, iid):
    """T2: forgetting frames means removing them from the log: cull_log_entries calls FrameLog::drain on every path
    (whatever the feedback generator reports), so that a frame older than the horizon is unknown to a late ack."""
    R = cx.R
    with cx.instance(iid, "T2 PAIR (presence)", "FrameQueue::cull_log_entries reaches FrameLog::drain(new base) on every path", floor=1) as inst:
        b = R.body("FrameQueue::cull_log_entries")
        dr = call_sites(b, "FrameLog::drain")
        for l, lab in dr:
            inst.site(b, l, lab)
            if lab != "FrameLog::drain(arg1.frame_log,arg2)":
                inst.violation(b.path, "drain argument", "cull_log_entries drains `%s`, expected the frame log up to the new base" % lab, at=b.span_at(l))
        if not dr or b.reach_exit_avoiding(Loc(0, -1), [l for l, _ in dr]) is not None:
            inst.violation(b.path, "drain skipped", "cull_log_entries can return without draining the frame log: forgotten frames stay acknowledgeable")


def nofeedback_timer_writers(cx, iid):
    """T9: the no-feedback timer is (re-)armed only by genuine feedback, by its own expiry and by the first send: an
    acknowledgement frame as such (wrong nonce, unknown frame, duplicate, empty) must not keep the rate from backing off."""
    R = cx.R
    allowed = ("SendRateComp::new", "SendRateComp::handle_feedback", "SendRateComp::nofeedback_expired", "SendRateComp::notify_frame_sent")
    with cx.instance(iid, "T9 WHO-MAY-WRITE", "nofeedback_exp_ms is written only in SendRateComp::{new, handle_feedback, nofeedback_expired, notify_frame_sent}", floor=2) as inst:
        for b in R.all_bodies():
            for loc, node, ps in b.field_writes(r".*\.nofeedback_exp_ms"):
                short = b.path.split("half_connection::", 1)[-1]
                inst.site(b, loc, "write of nofeedback_exp_ms in " + short)
                if not any(b.path.endswith(a) for a in allowed):
                    inst.violation(b.path, "write of nofeedback_exp_ms", "%s re-arms the no-feedback timer; only genuine feedback, the timer's own expiry and the first send may" % short, at=b.span_at(loc))


def writer_loops_unconditional(cx, iid):
    """T2: a frame writer serialises every element of the frame: inside the loop over a frame's list (ack groups,
    datagrams) the builder's add() is reached on every iteration - an element skipped on the wire makes read(write(f)) != f."""
    R = cx.R
    table = [("frame::serial::write_ack", "AckFrameBuilder::add"), ("frame::serial::write_data", "DataFrameBuilder::add")]
    with cx.instance(iid, "T2 PAIR (per iteration)", "write_ack / write_data add every element of the frame's list", floor=2) as inst:
        for fn, adder in table:
            b = R.body(fn)
            Ls = b.loops()
            adds = [l for l, t in b.calls(adder)]
            if len(Ls) != 1 or not adds:
                inst.violation(b.path, "element loop", "%s: expected one loop with a call of %s (anchor)" % (fn, adder))
                continue
            L = Ls[0]
            for l in adds:
                inst.site(b, l, "%s in the loop of %s" % (adder.split("::")[-1], fn.split("::")[-1]))
            # from the loop's `Some(element)` edge the back edge must not be reachable without passing add()
            fa = cx.fa(b)
            hit = False
            for (x, y, lab), lits in fa.edge_lits.items():
                if x in L["body"] and y in L["body"] and any(re.fullmatch(r"is\(Iter::next\(var\d+\),Some\)", z) for z in lits):
                    hit = True
                    blockers = {l.bb for l in adds}
                    seen, st = set(), [y]
                    bad = False
                    while st:
                        z = st.pop()
                        if z in seen or z in blockers:
                            continue
                        seen.add(z)
                        if z == L["header"]:
                            bad = True
                            break
                        st.extend(w for w, _ in b.succ[z] if w in L["body"])
                    if bad:
                        inst.violation(b.path, "element skipped", "%s can start the next iteration without having added the current element to the frame" % fn.split("::")[-1])
            if not hit:
                inst.violation(b.path, "element loop", "%s: no `Some(element)` edge found in the loop (anchor)" % fn)
            # ... and the loop ends only when the list is exhausted: no other way out (a `break` on a count drops the tail)
            for x in sorted(L["body"]):
                for y, lab in b.succ[x]:
                    if y in L["body"] or not lab or lab[0] != "sw":
                        if y not in L["body"] and b.term(x)["k"] in ("goto", "switch") and not (lab and lab[0] == "sw"):
                            inst.violation(b.path, "early exit", "%s leaves its element loop other than at the end of the list" % fn.split("::")[-1], at=b.span_at(Loc(x, 0)))
                        continue
                    lits = fa.edge_lits.get((x, y, lab[1]), [])
                    if b.term(y)["k"] == "unreachable":
                        continue
                    if not any(re.fullmatch(r"is\(Iter::next\(var\d+\),None\)", z) for z in lits):
                        inst.violation(b.path, "early exit", "%s leaves its element loop on `%s`, not at the end of the list: the remaining elements are not serialised" % (fn.split("::")[-1], ", ".join(lits)[:100] or "an unconditional edge"), at=b.span_at(Loc(x, 0)))


def syn_constructed_once(cx, iid):
    """T9: on the reading side a connection request exists only as the result of read_handshake_syn_payload, whose
    exact-length test is what makes a request cost its sender a full-size datagram; a second, laxer way to obtain a
    HandshakeSynFrame from received bytes (a fallback parser) lets undersized requests draw replies."""
    R = cx.R
    with cx.instance(iid, "T9 WHO-MAY-CONSTRUCT", "inside frame::serial a HandshakeSynFrame is built only by read_handshake_syn_payload, under the exact-length test", floor=1) as inst:
        n = 0
        for b in R.all_bodies():
            if not b.path.startswith("frame::serial") and "frame::serial::Serialize" not in b.path and "as frame::serial" not in b.path:
                continue
            for loc, s2 in b.assigns():
                rv = s2["rv"]
                if rv["k"] == "agg" and rv.get("adt", "").endswith("HandshakeSynFrame") and rv.get("fields"):
                    n += 1
                    inst.site(b, loc, "HandshakeSynFrame built in " + b.path.split("::")[-1])
                    if not b.path.endswith("read_handshake_syn_payload"):
                        inst.violation(b.path, "HandshakeSynFrame outside its reader", "%s builds a HandshakeSynFrame from received bytes without going through read_handshake_syn_payload's exact-length test" % b.path.split("::")[-1], at=b.span_at(loc))
                    else:
                        cx.guard(inst, b, [(loc, "HandshakeSynFrame{..}")], [[r"eq\(\[T\]::len\(arg1\),frame::serial::HANDSHAKE_SYN_FRAME_PAYLOAD_SIZE\)"], [r"eq\(frame::serial::HANDSHAKE_SYN_FRAME_PAYLOAD_SIZE,\[T\]::len\(arg1\)\)"]],
                                 construct="SYN accepted without the exact-length test", why="only a full-size connection request may be answered")
        if n == 0:
            inst.violation("frame::serial", "HandshakeSynFrame", "no construction of HandshakeSynFrame found in the reader (anchor)")


def resend_schedule(cx, iid):
    """T7 + T9: a resendable fragment comes due again a bounded time after each transmission: every entry pushed to the
    resend queue is due at now_ms + X where X is built from the RTT estimate and the entry's send count only, and the
    send count — the exponent of the back-off — only ever holds values capped by a small constant (bit-width analysis
    of resend_queue::Entry.send_count: at most 3 bits, i.e. a back-off factor of at most 2^7).  An uncapped exponent
    doubles the interval for ever (a fragment lost k times waits rtt * 2^k), overflows the shift after 64 losses and
    leaves a Reliable packet undelivered for longer than any bound."""
    from domain import BitWidth
    R = cx.R
    with cx.instance(iid, "T7 SHAPE + T9 (value domain)", "resend entries are due at now + f(rtt, send count) and the send count is capped by a small constant", floor=2) as inst:
        b = R.body("HalfConnection::emit_data_frames")
        n = 0
        for loc, t in b.calls("BinaryHeap::push"):
            e = b.call_expr(t)
            if "resend_queue" not in show(e[2][0]):
                continue
            ent = e[2][1]
            if not (ent[0] == "call" and ent[1].endswith("resend_queue::Entry::new") and len(ent[2]) == 3):
                inst.violation(b.path, "resend entry", "resend_queue.push of something that is not Entry::new(fragment, time, count): `%s`" % show(ent)[:120], at=b.span_at(loc))
                continue
            n += 1
            tm = show(ent[2][1])
            inst.site(b, loc, "due at " + tm[:90])
            m = re.fullmatch(r"add\((.*)\)", tm)
            parts = _split_top(m.group(1)) if m else []
            if "arg2" not in parts:
                inst.violation(b.path, "resend time", "a resend entry's due time is not now_ms + interval: `%s`" % tm[:140], at=b.span_at(loc))
                continue
            rest = [p for p in parts if p != "arg2"]
            free = set()
            for p in rest:
                for v in re.findall(r"(arg\d+(?:\.[a-z_0-9]+)*|var\d+)", p):
                    free.add(v)
                if re.search(r"\.send_count", p):
                    free.discard("send_count")
            bad = [v for v in free if v != "arg3" and not v.startswith("arg1.resend_queue")]
            if bad or not rest:
                inst.violation(b.path, "resend interval", "the resend interval `%s` depends on something other than the RTT estimate and the entry's send count (%s)" % (",".join(rest)[:120], ",".join(sorted(bad)) or "nothing"), at=b.span_at(loc))
        if n < 2:
            inst.violation(b.path, "resend pushes", "expected the first-send push and the re-push of the resend loop (anchor)")
        bw = BitWidth(R)
        owner = None
        for a in R.data.get("adts", []):
            if a.get("path", "").endswith("resend_queue::Entry"):
                owner = a["path"]
        w = None
        for loc_, srcs in bw.sources.items():
            if loc_[0] == "field" and loc_[2] == "send_count" and str(loc_[1]).endswith("resend_queue::Entry"):
                w = bw.loc_width(loc_, 8)
        inst.site(b, None, "bit-width of resend_queue::Entry.send_count = %s" % w)
        if w is None:
            inst.violation("half_connection::resend_queue::Entry", "send_count", "field resend_queue::Entry.send_count not found in the value-domain analysis (anchor)")
        elif w > 3:
            inst.violation("half_connection::resend_queue::Entry", "send_count uncapped", "the resend back-off exponent can hold %d-bit values: it is not capped by a small constant, so the resend interval of a repeatedly lost fragment grows without bound" % w)


def _split_top(s):
    out, depth, cur = [], 0, ""
    for ch in s:
        if ch in "([{":
            depth += 1
        elif ch in ")]}":
            depth -= 1
        if ch == "," and depth == 0:
            out.append(cur)
            cur = ""
        else:
            cur += ch
    if cur:
        out.append(cur)
    return out


def clock_exact(cx, iid):
    """T7 SHAPE: both endpoints measure time as the whole milliseconds elapsed since their time base, converted once and
    without narrowing: every deadline, retry interval and rate credit in the crate is a difference of such readings.  A
    clock floored to seconds books a frame up to 999 ms early (a timeout reported before the configured silence); a clock
    narrowed through a 32-bit type restarts after 49.7 days while the stored deadlines do not."""
    R = cx.R
    ok_src = (r"Instant::sub\(Instant::now\(\),arg1\.time_base\)", r"Instant::duration_since\(Instant::now\(\),arg1\.time_base\)",
              r"Instant::elapsed\(arg1\.time_base\)")
    with cx.instance(iid, "T7 SHAPE", "Client::now_ms / Server::now_ms return (now - time_base).as_millis() as u64", floor=2) as inst:
        for fn in ("client::Client::now_ms", "server::Server::now_ms"):
            b = R.body(fn)
            e = show(b.local_expr(0))
            inst.site(b, None, "%s = %s" % (fn.split("::")[-2] + "::now_ms", e[:100]))
            if not any(re.fullmatch(r"cast<u64>\(Duration::as_millis\(%s\)\)" % s, e) for s in ok_src):
                inst.violation(b.path, "clock reading", "now_ms returns `%s`, not the elapsed whole milliseconds since time_base as a u64: resolution, scale or range of every deadline computed from it changes" % e[:160])
        for b in R.all_bodies():
            for loc, node, ps in b.field_writes(r".*\.time_base"):
                inst.site(b, loc, "write of time_base in " + b.path)
                if b.path not in ("client::Client::connect", "server::Server::bind"):
                    inst.violation(b.path, "write of time_base", "the time base is moved after construction: every stored deadline is relative to it", at=b.span_at(loc))


def socket_drain(cx, iid):
    """T2 PAIR: handle_frames polls the socket again after every datagram it received, whatever became of it (unreadable,
    refused, handled): the receive loop is left only when the socket has nothing more (recv returns Err).  Leaving early
    on an unreadable datagram lets one stray datagram keep the frames queued behind it from their connections for a whole
    step: deadlines are then tested against stale arrival times."""
    R = cx.R
    with cx.instance(iid, "T2 PAIR (path)", "in Client/Server::handle_frames every path from a successful recv leads back to the next recv; frames that parse are forwarded to handle_frame", floor=2) as inst:
        for fn, callee in (("client::Client::handle_frames", "UdpSocket::recv"), ("server::Server::handle_frames", "UdpSocket::recv_from")):
            b = R.body(fn)
            recvs = [l for l, t in b.calls(callee)]
            if len(recvs) != 1:
                inst.violation(b.path, "recv sites", "expected exactly one %s call in %s (anchor)" % (callee, fn))
                continue
            inst.site(b, recvs[0], "poll: " + callee)
            rb = recvs[0].bb
            t = b.term(rb)
            nxt = t.get("target")
            # the Ok edge of the switch on the result
            ok_targets = []
            fa = cx.fa(b)
            for bb in sorted(b.reachable):
                if b.term(bb)["k"] != "switch":
                    continue
                for y, lab in b.succ[bb]:
                    lits = fa.edge_lits.get((bb, y, lab[1]), [])
                    if any(re.fullmatch(r"is\(%s\(.*\),Ok\)" % re.escape(callee), l) for l in lits):
                        ok_targets.append(y)
            if not ok_targets:
                inst.violation(b.path, "Ok edge", "no branch on the result of %s found (anchor)" % callee)
                continue
            for y in ok_targets:
                w = b.reach_exit_avoiding(Loc(y, -1), recvs)
                if w is not None:
                    inst.violation(b.path, "receive loop left early", "after a datagram was received, %s can return without polling the socket again (blocks %s): datagrams queued behind it wait for the next step" % (fn.split("::")[-2] + "::handle_frames", w[:8]))
            hf = call_sites(b, fn.rsplit("::", 1)[0].split("::")[-1] + "::handle_frame")
            for l, lab in hf:
                inst.site(b, l, "forward: " + lab[:60])
            if not hf:
                inst.violation(b.path, "handle_frame", "handle_frames never forwards a parsed frame")
            else:
                # a frame that parses is forwarded: from the Some edge of Frame::read the next poll is not reached without handle_frame
                for bb in sorted(b.reachable):
                    if b.term(bb)["k"] != "switch":
                        continue
                    for y, lab in b.succ[bb]:
                        lits = fa.edge_lits.get((bb, y, lab[1]), [])
                        if any(re.fullmatch(r"is\(Frame::read\(.*\),Some\)", l) for l in lits):
                            w = b.reach_exit_avoiding(Loc(y, -1), [l for l, _ in hf], exits=recvs)
                            if w is not None:
                                inst.violation(b.path, "parsed frame dropped", "a datagram that parses as a frame can be skipped without being handed to handle_frame")


def emitter_wiring(cx, iid):
    """T7 + T4: the frame emitters start from exactly what their caller hands them, and hand it on unchanged:
    {Ack,Data}FrameEmitter::new store the credit and (for acks) the two window bases they were given; emit_ack_frames
    gives the ack emitter the receiver's frame-window base, the receiver's packet-window base and the connection's
    current credit, in that order; and both places that start an ack frame build it from (frame base, packet base) in
    that order.  The two bases are both u32: swapped, the peer reads a packet id as its frame-window base and refuses
    it, so a sender whose whole window was lost is never told where the receiver stands; an emitter that starts from
    max(credit, 0) sends acknowledgements while the leaky bucket is in deficit."""
    R = cx.R
    want = {
        ("half_connection::emit::AckFrameEmitter::<F>::new", "AckFrameEmitter"): {"frame_window_base_id": "arg1", "packet_window_base_id": "arg2", "flush_alloc": "arg3", "in_progress_frame": "None{}"},
        ("half_connection::emit::DataFrameEmitter::<'a, F>::new", "DataFrameEmitter"): {"now_ms": "arg1", "flush_alloc": "arg3", "in_progress_frame": "None{}"},
    }
    with cx.instance(iid, "T7 SHAPE + T4 SIBLING", "emitters store the credit and window bases they are given; ack frames are built from (frame base, packet base) at every site", floor=5) as inst:
        for (fn, adt), fields in want.items():
            try:
                b, loc, got = _ctor(R, fn, adt)
            except Exception:
                inst.violation(fn, adt + " constructor", "%s not found (anchor)" % fn)
                continue
            if loc is None:
                inst.violation(b.path, adt + " literal", "%s no longer builds a %s literal (anchor)" % (fn, adt))
                continue
            inst.site(b, loc, "%s{%s}" % (adt, ", ".join("%s: %s" % (k, got.get(k)) for k in fields)))
            for k, v in fields.items():
                if got.get(k) != v:
                    inst.violation(b.path, "%s.%s" % (adt, k), "%s::new initialises %s to `%s`, expected `%s`" % (adt, k, str(got.get(k))[:80], v), at=b.span_at(loc))
        n = 0
        for b in R.all_bodies():
            for loc, t in b.calls("AckFrameBuilder::new"):
                e = b.call_expr(t)
                a = [show(x) for x in e[2]]
                n += 1
                inst.site(b, loc, "AckFrameBuilder::new(%s)" % ", ".join(a)[:100])
                if not (len(a) == 2 and re.fullmatch(r"arg1\.frame_window_base_id", a[0]) and re.fullmatch(r"arg1\.packet_window_base_id", a[1])):
                    inst.violation(b.path, "ack frame bases", "an ack frame is started as AckFrameBuilder::new(%s): expected (frame window base, packet window base)" % ", ".join(a)[:120], at=b.span_at(loc))
        if n < 2:
            inst.violation("half_connection::emit", "AckFrameBuilder::new", "expected the two ack-frame starts of AckFrameEmitter (push_dud, push) (anchor)")
        b = R.body("HalfConnection::emit_ack_frames")
        cs = list(b.calls("AckFrameEmitter::<F>::new")) or list(b.calls("AckFrameEmitter::new"))
        if len(cs) != 1:
            inst.violation(b.path, "AckFrameEmitter::new", "emit_ack_frames should create exactly one ack emitter (found %d)" % len(cs))
        else:
            loc, t = cs[0]
            a = [show(x) for x in b.call_expr(t)[2]]
            inst.site(b, loc, "AckFrameEmitter::new(%s)" % ", ".join(a[:3])[:140])
            if not (len(a) == 4 and a[0] == "FrameAckQueue::base_id(arg1.frame_ack_queue)" and a[1] == "PacketReceiver::base_id(arg1.packet_receiver)" and a[2] == "arg1.flush_alloc"):
                inst.violation(b.path, "ack emitter operands", "the ack emitter is created from (%s): expected (frame_ack_queue.base_id(), packet_receiver.base_id(), flush_alloc, callback)" % ", ".join(a[:3])[:160], at=b.span_at(loc))
        for fn, want_fa in (("FrameAckQueue::base_id", "ReceiveWindow::base_id(arg1.receive_window)"), ("frame_ack_queue::ReceiveWindow::base_id", "arg1.base_id"), ("PacketReceiver::base_id", "arg1.base_id")):
            gb = R.body(fn)
            e = show(gb.local_expr(0))
            inst.site(gb, None, "%s = %s" % (fn, e))
            if e != want_fa:
                inst.violation(gb.path, "base getter", "%s returns `%s`, expected `%s`" % (fn, e, want_fa))


def ack_queue_discipline(cx, iid):
    """T3 + T7: the receiver's queue of owed acknowledgement groups is first-in first-out and loses nothing: mark_seen
    extends the newest group (back) or appends a new one at the back, peek shows the oldest (front), pop removes exactly
    that one and hands it out, and nothing else touches the queue.  An emitter that peeks one end and pops the other
    acknowledges a group it never sent and drops the one it did; a group that is popped but not returned, or never
    popped, leaves the sender's frames unacknowledged (Reliable data is resent for ever, is_send_pending never clears)."""
    R = cx.R
    FAQ = "half_connection::frame_ack_queue::FrameAckQueue::"
    with cx.instance(iid, "T3 WHO-MAY + T7 SHAPE", "FrameAckQueue: mark_seen extends/appends at the back, peek = front, pop = pop_front and returns it; no other access", floor=5) as inst:
        pk = R.body(FAQ + "peek")
        e = show(pk.local_expr(0))
        inst.site(pk, None, "peek = " + e)
        if e != "VecDeque::front(arg1.entries)":
            inst.violation(pk.path, "peek", "FrameAckQueue::peek returns `%s`, expected the oldest group (front)" % e)
        pp = R.body(FAQ + "pop")
        pops = [(l, show(pp.call_expr(t))) for l, t in pp.calls() if t.get("fn") and show(pp.call_expr(t)).startswith(R.short(t["fn"]) + "(arg1.entries")]
        inst.site(pp, None, "pop: %s" % [c for _, c in pops])
        if [c for _, c in pops] != ["VecDeque::pop_front(arg1.entries)"]:
            inst.violation(pp.path, "pop", "FrameAckQueue::pop accesses the queue as %s, expected exactly one pop_front" % [c for _, c in pops])
        else:
            from rules import case_values
            vals = set()
            fa = cx.fa(pp)
            for dloc, kind, node in pp.defs.get(0, []):
                v = show(pp.rvalue_expr(node["rv"])) if kind == "assign" else show(pp.call_expr(node))
                alts = fa.at(dloc) or []
                some = bool(alts) and all(any(re.fullmatch(r"is\(VecDeque::pop_front\(arg1\.entries\),Some\)", x) for x in a) for a in alts)
                none = bool(alts) and all(any(re.fullmatch(r"is\(VecDeque::pop_front\(arg1\.entries\),None\)", x) for x in a) for a in alts)
                vals.add((v, "Some" if some else "None" if none else "?"))
            if not pp.defs.get(0):
                vals.add((show(pp.local_expr(0)), "direct"))
            inst.site(pp, None, "pop returns %s" % sorted(vals))
            okv = vals in ({("Some{VecDeque::pop_front(arg1.entries)@Some.0}", "Some"), ("None{}", "None")}, {("VecDeque::pop_front(arg1.entries)", "direct")})
            if not okv:
                inst.violation(pp.path, "pop result", "FrameAckQueue::pop does not hand out the group it removed: %s" % sorted(vals))
        ms = R.body(FAQ + "mark_seen")
        acc = []
        for l, t in ms.calls():
            if t.get("fn") and show(ms.call_expr(t)).startswith(R.short(t["fn"]) + "(arg1.entries"):
                acc.append((l, R.short(t["fn"])))
        inst.site(ms, None, "mark_seen accesses: %s" % sorted({a for _, a in acc}))
        if {a for _, a in acc} - {"VecDeque::back_mut", "VecDeque::push_back", "VecDeque::back", "VecDeque::is_empty", "VecDeque::len"} or "VecDeque::push_back" not in {a for _, a in acc}:
            inst.violation(ms.path, "mark_seen", "mark_seen touches the ack queue through %s: new groups go to the back, the group extended is the newest" % sorted({a for _, a in acc}))
        for ob in R.all_bodies():
            if ob.path.startswith(FAQ) and ob.path.split("::")[-1] in ("mark_seen", "pop", "peek", "new"):
                continue
            for l, t in ob.calls():
                if t.get("fn") and re.search(r"\.entries\b", show(ob.call_expr(t))) and "frame_ack_queue" in ob.path and "VecDeque::" in R.short(t["fn"]):
                    inst.violation(ob.path, "ack queue access", "%s accesses the ack queue (%s)" % (ob.path.split("::")[-1], R.short(t["fn"])), at=ob.span_at(l))
        em = R.body("HalfConnection::emit_ack_frames")
        pk_s, po_s = call_locs(em, "FrameAckQueue::peek"), call_locs(em, "FrameAckQueue::pop")
        inst.site(em, None, "emit_ack_frames: %d peek, %d pop" % (len(pk_s), len(po_s)))
        if len(pk_s) != 1 or len(po_s) != 1:
            inst.violation(em.path, "peek/pop", "emit_ack_frames should peek and pop the ack queue once per cycle")


def receiver_flag_addressing(cx, iid):
    """T4 SIBLING: the packet receiver keeps three bit sets — entry_flags and data_flags (one bit per window slot, word
    slot/64, bit slot%64) and channel_ready_flags (one bit per channel).  Every read and write of a slot flag addresses
    word and bit with the same masked id, and every update of a set touches exactly one bit: `|= 1 << b` or
    `&= !(1 << b)`.  A test that looks at bit slot%63, or an update that clears every other channel's ready bit, makes the
    receiver skip an entry that is present (or wait for one that is not): packets of other channels stay undelivered
    until another datagram happens to arrive for them."""
    R = cx.R
    fns = ("PacketReceiver::handle_datagram", "PacketReceiver::receive", "PacketReceiver::advance_window", "PacketReceiver::resynchronize")
    W = r"cast<usize>\(bitand\((?:arg1\.receive_window_mask,.*|.*,arg1\.receive_window_mask)\)\)"
    with cx.instance(iid, "T4 SIBLING (bit addressing)", "slot flags are addressed as word slot/64, bit slot%64 of one masked id at every access; flag sets are updated one bit at a time", floor=10) as inst:
        n = [0]

        def walk(b, loc, e, top_write=None):
            if not isinstance(e, tuple):
                return
            if e and e[0] == "bin" and e[1] in ("BitAnd", "BitOr") and len(e) == 4:
                sa, sb = show(e[2]), show(e[3])
                for flag_s, mask_e in ((sa, e[3]), (sb, e[2])):
                    m = re.fullmatch(r"arg1\.(entry_flags|data_flags)\[(.*)\]", flag_s)
                    mc = flag_s == "arg1.channel_ready_flags"
                    if not m and not mc:
                        continue
                    ms = show(mask_e)
                    mm = re.fullmatch(r"(not\()?shl\(1,(.*?)\)(?(1)\))", ms)
                    n[0] += 1
                    what = "%s %s %s" % (flag_s[:60], e[1], ms[:60])
                    if not mm:
                        inst.site(b, loc, what)
                        inst.violation(b.path, "flag mask", "a flag set is combined with `%s`, not with a single bit 1 << b (or its complement)" % ms[:120], at=b.span_at(loc))
                        continue
                    if not top_write and (e[1] == "BitOr" or mm.group(1)):
                        inst.site(b, loc, what)
                        inst.violation(b.path, "flag test", "a flag is tested as `%s %s %s`: a test reads one bit with & (1 << b)" % (flag_s[:50], e[1], ms[:70]), at=b.span_at(loc))
                        continue
                    if e[1] == "BitOr" and mm.group(1) or (e[1] == "BitAnd" and top_write and not mm.group(1)):
                        inst.site(b, loc, what)
                        inst.violation(b.path, "flag update", "a flag set is updated as `%s %s %s`: setting needs |= bit, clearing needs &= !bit" % (flag_s[:50], e[1], ms[:70]), at=b.span_at(loc))
                        continue
                    if m:
                        idx, bit = m.group(2), mm.group(2)
                        mi = re.fullmatch(r"div\((%s),64\)" % W, idx)
                        mb = re.fullmatch(r"rem\((%s),64\)" % W, bit)
                        inst.site(b, loc, what)
                        if not mi or not mb or mi.group(1) != mb.group(1):
                            inst.violation(b.path, "slot flag addressing", "slot flag accessed as word `%s`, bit `%s`: expected slot/64 and slot%%64 of the same masked id" % (idx[:80], bit[:80]), at=b.span_at(loc))
                    else:
                        inst.site(b, loc, what)
            for c in e:
                if isinstance(c, tuple):
                    walk(b, loc, c, None)
                elif isinstance(c, list):
                    for x in c:
                        walk(b, loc, x, None)
        for fn in fns:
            b = R.body(fn)
            for loc, s in b.assigns():
                pl = show(b.place_expr(s["pl"])) if s["pl"]["p"] else None
                is_flag_write = bool(pl) and bool(re.fullmatch(r"arg1\.(entry_flags\[.*\]|data_flags\[.*\]|channel_ready_flags)", pl))
                if not is_flag_write and s["pl"]["p"]:
                    continue
                if not is_flag_write and not b.is_single_def(s["pl"]["l"]):
                    pass
                e = b.rvalue_expr(s["rv"])
                if is_flag_write:
                    es = show(e)
                    if not re.match(r"bit(and|or)\(", es):
                        inst.violation(b.path, "flag store", "`%s` is overwritten with `%s` instead of updated one bit at a time" % (pl[:60], es[:100]), at=b.span_at(loc))
                        continue
                    walk(b, loc, e, top_write=True)
                elif "_flags" in show(e) and show(e).startswith(("bitand(", "bitor(")):
                    walk(b, loc, e, None)
        if n[0] < 10:
            inst.violation("half_connection::packet_receiver::PacketReceiver", "flag accesses", "fewer flag accesses than counted by hand (anchor)")


def acked_flag_writers(cx, iid):
    """T9 WHO-MAY-WRITE: a logged frame's `acked` flag is what makes a repeated acknowledgement inert.  It starts false
    where the frame is logged (FrameQueue::push), is set to true by acknowledge_group, and is never cleared again:
    any other write (a "fresh start" of the loss history, a resend) lets a duplicate or replay of an earlier genuine
    acknowledgement count a second time towards RTT, receive rate and loss estimates."""
    R = cx.R
    with cx.instance(iid, "T9 WHO-MAY-WRITE", "frame-log `acked` is false at FrameQueue::push, set true only in acknowledge_group, never cleared", floor=2) as inst:
        n = 0
        for b in R.all_bodies():
            if "half_connection::" not in b.path:
                continue
            for l, node, ps in b.field_writes(r".*\.acked"):
                v = show(b.rvalue_expr(node["rv"])) if node["k"] == "assign" else "call"
                n += 1
                inst.site(b, l, "%s: acked = %s" % (b.path.split("::")[-1], v))
                if not (b.path.endswith("FrameQueue::acknowledge_group") and v == "true"):
                    inst.violation(b.path, "write of acked", "%s sets a logged frame's acked flag to `%s`: once acknowledged a frame stays acknowledged" % (b.path.split("::")[-1], v), at=b.span_at(l))
            for l, s in b.assigns():
                rv = s["rv"]
                if rv["k"] == "agg" and str(rv.get("adt", "")).endswith("frame_queue::Entry") and rv.get("fields") and "acked" in rv["fields"]:
                    v = show(b.operand_expr(rv["ops"][rv["fields"].index("acked")]))
                    n += 1
                    inst.site(b, l, "%s: Entry{acked: %s}" % (b.path.split("::")[-1], v))
                    if v != "false" or not b.path.endswith("FrameQueue::push"):
                        inst.violation(b.path, "Entry literal", "a frame-log entry is created with acked = %s in %s" % (v, b.path.split("::")[-1]), at=b.span_at(l))
        if n < 2:
            inst.violation("half_connection::frame_queue", "acked", "the acked flag's writers were not found (anchor)")


def insert_only_absent(cx, iid):
    """T1 GUARD: the server stores a new connection under an address only when the address has no entry.  An entry that is
    replaced keeps its timers: when the old handshake's retry budget runs out its timer removes *by address* and deletes
    the newer, established connection from the map, whose deadline is then never refreshed again: Error(Timeout) for a
    peer whose frames keep arriving."""
    R = cx.R
    with cx.instance(iid, "T1 GUARD", "clients.insert only under `clients.get(address)` is None", floor=1) as inst:
        b = R.body("server::Server::handle_handshake_syn")
        sinks = call_sites(b, "HashMap::insert", r"arg1\.clients")
        if not sinks:
            inst.violation(b.path, "clients.insert", "handle_handshake_syn no longer inserts into the address map (anchor)")
        cx.guard(inst, b, sinks, [[r"is\(HashMap::get\(arg1\.clients,arg2\),None\)"]], construct="insert replacing an entry",
                 why="a repeated SYN must never replace an existing entry: the old entry's timers remove by address")


def send_pending_covers_queues(cx, iid):
    """T1 GUARD: "nothing pending" is reported only when the send queue, the queue of fragments not yet transmitted and the
    resend queue are all empty.  A fragmented Unreliable packet cut across several flushes lives only in the pending queue
    after the first flush: a predicate that forgets that queue lets a flush-mode disconnect close the connection with the
    rest of the packet unsent."""
    R = cx.R
    from rules import return_alts
    from mirlib import alt_satisfies
    with cx.instance(iid, "T1 GUARD", "is_send_pending() is false only with send queue, pending queue and resend queue all empty", floor=1) as inst:
        isp = R.body("HalfConnection::is_send_pending")
        fal = return_alts(cx, isp, False)
        if not fal:
            inst.violation(isp.path, "return false", "is_send_pending has no false return (anchor)")
        for loc, alt in fal:
            inst.site(isp, loc, "is_send_pending -> false", {"under": sorted(alt)})
            if not alt_satisfies(alt, [r"eq\(0,PacketSender::pending_count\(arg1\.packet_sender\)\)", r"eq\(0,VecDeque::len\(arg1\.pending_queue\)\)", r"eq\(0,BinaryHeap::len\(arg1\.resend_queue\)\)"]):
                inst.violation(isp.path, "is_send_pending false with data queued", "'nothing pending' is reported although one of send queue / pending queue / resend queue may be non-empty", at=isp.span_at(loc), detail={"facts": sorted(alt)})


_SHARE_CACHE = {}


def share_instance(cx, module, src_iid, new_iid):
    """Re-uses one instance of another property's module as an instance of this property: the other module's run() is
    evaluated once per process on a sub-context over the same facts (the fact analyses are shared), and the instance
    src_iid is copied under new_iid.  Used where the rule is written inline in the other module."""
    import importlib
    from rules import Cx
    key = (id(cx.R), module)
    sub = _SHARE_CACHE.get(key)
    if sub is None:
        sub = Cx(module, cx.R, cx.D, tier=cx.tier, src=cx.src, meta=cx.meta)
        sub._fa = cx._fa
        importlib.import_module("props." + module).run(sub)
        _SHARE_CACHE[key] = sub
    for inst in sub.instances:
        if inst.iid == src_iid:
            import copy
            c = copy.copy(inst)
            c.iid = new_iid
            c.violations = [dict(v, instance=new_iid, key="%s|%s|%s" % (new_iid, v.get("fn"), v.get("construct"))) for v in inst.violations]
            cx.instances.append(c)
            return c
    with cx.instance(new_iid, "share", "shared instance %s of %s" % (src_iid, module), floor=0) as i2:
        i2.violation("<anchor>", src_iid, "instance %s not produced by props.%s (anchor)" % (src_iid, module))


def reorder_put_guarded(cx, iid):
    """T1 GUARD: a newly acknowledged frame enters the loss detector's reorder buffer only if the buffer can still take it
    (`can_put(frame_id)`: the frame is not behind the buffer's base).  A frame the detector has already judged lost and
    whose acknowledgement arrives late must not be put again: it would occupy a reorder slot for the rest of the
    connection and later holes would be declared lost early."""
    R = cx.R
    with cx.instance(iid, "T1 GUARD", "FeedbackGen::notify_ack calls ReorderBuffer::put only under ReorderBuffer::can_put(frame id)", floor=1) as inst:
        b = R.body("FeedbackGen::notify_ack")
        puts = call_sites(b, "ReorderBuffer::put")
        if not puts:
            inst.violation(b.path, "ReorderBuffer::put", "notify_ack no longer hands acknowledged frames to the reorder buffer (anchor)")
        cx.guard(inst, b, puts, [[r"ReorderBuffer::can_put\(arg1\.reorder_buffer,arg2\)"]], construct="put without can_put",
                 why="a frame behind the reorder buffer's base has already been judged: putting it again corrupts the loss history")
